"""C35 macro lookup and require follow the documented namespaces.

A specification function (reference model) of the documented macro namespaces - hy.eval's `macros` argument, local macros
from the innermost to the outermost function / class / comprehension scope, module macros (`_hy_macros`), core macros
(builtins._hy_macros) - and of `require` (bare module = prefix, :as prefix, name list with :as aliases, `*` honouring
`_hy_export_macros`, the :macros keyword) and of the `:warn-on-core-shadow` pragma is compared with the REAL compiler on
generated histories: sequences of defmacro / require / pragma / scope-opening / scope-closing events.  Every macro expands
to a literal naming its definition site, so the value of a call identifies the definition that was chosen.  After every
event the program (a) calls a plumbing macro that records the compiler's local_state_stack, the module table, the option
value and the number of warnings so far (compile time), and (b) calls every name of interest (run time).
"""
import hv.symx.core  # noqa: F401  (puts /repo on sys.path, pre-imports hy)

import builtins
import gc
import itertools
import multiprocessing
import os
import random
import shutil
import sys
import tempfile
import types
import warnings

import hy
import hy.macros as hmac
from hy.errors import HyRequireError
from hy.reader import mangle

META = {
    "engine": "rtc+ex",
    "level": "other",
    "technique": "run-time contract on the real compiler: a specification function of the documented lookup order (hy.eval "
                 "macros argument > local macros innermost to outermost > module macros > core macros), of scope entry and "
                 "exit (fn, defn, defclass, lfor, sfor, gfor, dfor open a local macro scope; do, let, for, if, try do not), "
                 "of require (bare, :as, *, name lists with aliases, :macros, several modules; _hy_export_macros) and of the "
                 "warn-on-core-shadow pragma is compared with the real hy.eval on every history of events up to a length "
                 "bound over a finite alphabet (x with / without a macros argument) and on longer random histories; the "
                 "observations are the run-time values of calls of each name (each macro expands to a literal naming its "
                 "definition site), compile-time snapshots of HyASTCompiler.local_state_stack and the module's _hy_macros "
                 "taken by a plumbing macro after every event, and the warnings emitted by each event; plus a direct "
                 "contract on hy.macros.require",
    "text": "Bounded stand-in. For every enumerated history: each call resolves to the definition the specification names "
            "(first of: macros argument, local tables innermost to outermost, module table, core); the local tables and the "
            "module table after every event are exactly the specified ones (defmacro and require write into the innermost "
            "local table inside fn/defn/defclass/comprehension scopes and into the module table elsewhere, also inside do, "
            "let, for, if, try); when a scope ends its table and its pragma setting are gone and the enclosing ones are "
            "back; require brings in exactly the documented names (prefix forms: every macro under prefix.name; *: the "
            "names in _hy_export_macros or, without it, the names whose mangled form does not begin with an underscore; "
            "name lists: the listed names under their aliases, mangled), and a missing name is a HyRequireError; every "
            "defmacro / require that creates a name equal to a core macro's emits exactly one RuntimeWarning naming it "
            "unless the option is false at that point, and nothing else warns.",
    "note": "Level other: histories are bounded in length, the alphabet of events, names and source modules is finite. "
            "Trusted: hy.mangle (C32) in the specification; the plumbing macro reading the compiler's state; the run-time "
            "values as witnesses of the compile-time expansion. Known finding: (require mod) and (require mod :as P) bring "
            "in only the exported macros (non-underscore names, or _hy_export_macros), while docs/api.rst says every macro "
            "of the module becomes mod.name and reserves _hy_export_macros for `*`.",
}

CORE = None                 # mangled names of the core macros, read once from builtins._hy_macros
MODS = {"a": "hv_c35_a", "b": "hv_c35_b", "c": "hv_c35_c"}
# the macros every source module defines, in definition order (each expands to "req:<letter>.<name>")
SRC_MACROS = ("m1", "m2", "_hid", "when", "my-mac?")
SRC_EXPORTS = {"a": None, "b": ("m1", "_hid"), "c": ()}          # None: no _hy_export_macros in the module


def write_sources(d):
    for letter, modname in MODS.items():
        lines = ["(pragma :warn-on-core-shadow False)"]
        for n in SRC_MACROS:
            lines.append(f'(defmacro {n} [#* a] "req:{letter}.{n}")')
        ex = SRC_EXPORTS[letter]
        if letter == "b":
            lines.append("(export :macros [" + " ".join(ex) + "])")            # the documented convenience macro
        elif ex is not None:
            lines.append("(setv _hy_export_macros [" + " ".join(f'"{mangle(n)}"' for n in ex) + "])")
        with open(os.path.join(d, modname + ".hy"), "w") as f:
            f.write("\n".join(lines) + "\n")
    # a package whose __init__ has no macros, for the error case
    with open(os.path.join(d, "hv_c35_empty.hy"), "w") as f:
        f.write("(setv x 1)\n")


# ------------------------------------------------------------------------------------------------------------------
# the alphabet of events
# ------------------------------------------------------------------------------------------------------------------
SCOPES = ("fn", "defn", "defclass", "lfor", "sfor", "gfor", "dfor")          # open a local macro scope (docs/macros.rst)
CONTAINERS = ("do", "let", "for", "if", "try")                              # do not
DEF_NAMES = ("m1", "when", "my-mac?")
REQ_VARIANTS = ("bare", "as", "star", "names", "alias", "macros-names", "macros-star", "macros-as", "two")


def full_alphabet():
    toks = [("def", n) for n in DEF_NAMES]
    toks += [("req", m, v) for m in MODS for v in REQ_VARIANTS]
    toks += [("pragma", False), ("pragma", True)]
    toks += [("open", s) for s in SCOPES + CONTAINERS]
    toks.append(("close",))
    return toks


REDUCED = [("def", "m1"), ("def", "when"), ("req", "a", "star"), ("req", "b", "as"), ("req", "a", "alias"), ("pragma", False),
           ("pragma", True), ("open", "fn"), ("open", "defclass"), ("open", "lfor"), ("open", "do"), ("close",)]


# histories of length 4 (thorough tier) leave out re-enabling the pragma and the aliasing require
REDUCED4 = [t for t in REDUCED if t not in (("pragma", True), ("req", "a", "alias"))]


def medium_alphabet():
    """The full alphabet with the require events thinned out (quick tier, histories of length 2)."""
    keep = {("a", v) for v in REQ_VARIANTS} | {("b", "bare"), ("b", "as"), ("b", "star"), ("c", "star")}
    return [t for t in full_alphabet() if t[0] != "req" or (t[1], t[2]) in keep]


def valid(history):
    depth = 0
    for t in history:
        if t[0] == "open":
            depth += 1
        elif t[0] == "close":
            depth -= 1
            if depth < 0:
                return False
    return True


def req_text(mod, variant):
    m = MODS[mod]
    return {
        "bare": f"(require {m})",
        "as": f"(require {m} :as P)",
        "star": f"(require {m} *)",
        "names": f"(require {m} [m1 _hid])",
        "alias": f"(require {m} [m1 :as when my-mac? :as q-x])",
        "macros-names": f"(require {m} :macros [m2 my-mac?])",
        "macros-star": f"(require {m} :macros *)",
        "macros-as": f"(require {m} :macros :as Q)",
        "two": f"(require {m} [m1] {MODS['b']} :as P)",
    }[variant]


def req_probe_names(mod, variant):
    m = MODS[mod]
    return {
        "bare": [f"{m}.m1", f"{m}._hid", f"{m}.when"],
        "as": ["P.m1", "P._hid", "P.when"],
        "star": ["_hid", "my-mac?"],
        "names": ["_hid"],
        "alias": ["q-x", "my-mac?"],
        "macros-names": ["m2", "my-mac?"],
        "macros-star": ["_hid", "m2"],
        "macros-as": ["Q.m1", "Q._hid"],
        "two": ["P.m1", "P.when"],
    }[variant]


# ------------------------------------------------------------------------------------------------------------------
# specification of require (docs/api.rst `require`, `export`)
# ------------------------------------------------------------------------------------------------------------------
def exports_of(mod, star_all=False):
    ex = SRC_EXPORTS[mod]
    if star_all:
        return list(SRC_MACROS)
    if ex is not None:
        return [n for n in SRC_MACROS if n in ex]
    return [n for n in SRC_MACROS if not mangle(n).startswith("_")]


def spec_require(mod, variant, star_all=False):
    """-> list of (new name as written, source macro name, doc_only).  doc_only marks names that the documentation of the
    prefix forms promises ("every macro foo in mymodule") although they are not exported."""
    ex = exports_of(mod)

    def pref(p, m=mod):
        return [(f"{p}.{n}", (m, n), n not in exports_of(m)) for n in SRC_MACROS]
    if variant == "bare":
        return pref(MODS[mod])
    if variant == "as":
        return pref("P")
    if variant == "macros-as":
        return pref("Q")
    if variant in ("star", "macros-star"):
        return [(n, (mod, n), False) for n in exports_of(mod, star_all)]
    if variant == "names":
        return [("m1", (mod, "m1"), False), ("_hid", (mod, "_hid"), False)]
    if variant == "alias":
        return [("when", (mod, "m1"), False), ("q-x", (mod, "my-mac?"), False)]
    if variant == "macros-names":
        return [("m2", (mod, "m2"), False), ("my-mac?", (mod, "my-mac?"), False)]
    if variant == "two":
        return [("m1", (mod, "m1"), False)] + pref("P", "b")
    raise KeyError(variant)


class Entry:
    __slots__ = ("site", "doc_only")

    def __init__(self, site, doc_only=False):
        self.site, self.doc_only = site, doc_only


# ------------------------------------------------------------------------------------------------------------------
# one history -> program text + specification of every observation
# ------------------------------------------------------------------------------------------------------------------
def wrap(shape, body, uid):
    b = " ".join(body)
    return {
        "fn": f"((fn [] {b} None))",
        "defn": f"(do (defn hvf{uid} [] {b} None) (hvf{uid}))",
        "defclass": f"(defclass HvC{uid} [] {b})",
        "lfor": f"(lfor _ [0] (do {b} None))",
        "sfor": f"(sfor _ [0] (do {b} None))",
        "gfor": f"(list (gfor _ [0] (do {b} None)))",
        "dfor": f"(dfor _ [0] 0 (do {b} None))",
        "do": f"(do {b})",
        "let": f"(let [hvx{uid} 1] {b})",
        "for": f"(for [_ [0]] {b})",
        "if": f"(if True (do {b}) None)",
        "try": f"(try {b} (finally None))",
    }[shape]


def build(history, extra_names, mode="right"):
    """Walk the history once, producing the program and the specification of every probe point.
    mode: 'right' or a deliberately wrong specification for the must-fail canaries ('module-first', 'no-pop', 'star-all').
    -> (source, points, probe names)   points[pid] = dict(levels, module, option, ctx, depth, event, probes={name: (site,
    namespace, doc_only)}, warn=[names the preceding event must warn about], info)"""
    module = {}                                   # mangled name -> Entry
    base = {"warn": None}                         # the module-level option holder
    stack = []                                    # [{"macros": {}, "warn": None, "shape": s}]
    open_shapes = []                              # every open form (scopes and containers), innermost last
    open_points = []
    bodies = [[]]
    extra = {mangle(n): Entry(f"evalarg:{n}") for n in extra_names}
    names = ["m1", "when"]
    for t in history:
        if t[0] == "def" and t[1] not in names:
            names.append(t[1])
        if t[0] == "req":
            for n in req_probe_names(t[1], t[2]):
                if n not in names:
                    names.append(n)
    names = names[:8]
    points = {}
    pid = [0]

    def option():
        for s in reversed(stack):
            if s["warn"] is not None:
                return s["warn"]
        return True if base["warn"] is None else base["warn"]

    def lookup(key):
        order = [("eval-macros-argument", extra)]
        locs = [("local-innermost" if i == len(stack) - 1 else "local-enclosing", s["macros"]) for i, s in enumerate(stack)]
        locs.reverse()
        if mode == "module-first":
            order += [("module", module)] + locs
        else:
            order += locs + [("module", module)]
        for ns, tab in order:
            if key in tab:
                return tab[key].site, ns, tab[key].doc_only
        if key in CORE:
            return None, "core", False                         # (when 1) -> (if 1 (do) None) -> None at run time
        return "<none>", "no-macro", False

    def point(event, warn, info=None):
        p = pid[0]
        pid[0] += 1
        scope_shape = stack[-1]["shape"] if stack else None
        points[p] = {
            "levels": [dict(s["macros"]) for s in stack], "module": dict(module), "option": option(),
            "ctx": f"in {scope_shape}" if scope_shape else "module level", "depth": len(stack), "event": event, "warn": warn,
            "probes": {n: lookup(mangle(n)) for n in names}, "info": info or {},
        }
        # compile time: snapshot of the compiler's tables; run time: the value of a call of every name of interest (a
        # name that is no macro at this point is an ordinary call of a fallback function returning "<none>")
        bodies[-1].append(f"(hv-snap {p})")
        bodies[-1].append(f"(hv-log {p} #(" + " ".join(f"({n} 1)" for n in names) + "))")

    point(("start",), [])
    for idx, t in enumerate(list(history) + [("close",)] * sum(1 if t[0] == "open" else -1 if t[0] == "close" else 0 for t in history)):
        target = stack[-1]["macros"] if stack else module
        if t[0] == "def":
            name = t[1]
            bodies[-1].append(f'(defmacro {name} [#* a] "d{idx}:{name}")')
            warn = [name] if mangle(name) in CORE and option() else []
            target[mangle(name)] = Entry(f"d{idx}:{name}")
            point(("defmacro", "a core macro's name" if mangle(name) in CORE else "another name"), warn,
                  {"option-state": option_state(stack, base)})
        elif t[0] == "req":
            bodies[-1].append(req_text(t[1], t[2]))
            warn, doc_keys = [], {}
            for new, (m, src), doc_only in spec_require(t[1], t[2], star_all=(mode == "star-all")):
                if mangle(new) in CORE and option():
                    warn.append(new)
                target[mangle(new)] = Entry(f"req:{m}.{src}", doc_only)
                if doc_only:
                    doc_keys[mangle(new)] = f"req:{m}.{src}"
            point(("require", t[2], t[1]), warn, {"option-state": option_state(stack, base), "doc-keys": doc_keys, "brings-core": bool(warn) or any(
                mangle(new) in CORE for new, _, _ in spec_require(t[1], t[2]))})
        elif t[0] == "pragma":
            bodies[-1].append(f"(pragma :warn-on-core-shadow {t[1]})")
            (stack[-1] if stack else base)["warn"] = t[1]
            point(("pragma",), [])
        elif t[0] == "open":
            shape = t[1]
            open_shapes.append(shape)
            open_points.append(pid[0] - 1)                    # the probe point just before the form
            bodies.append([])
            if shape in SCOPES:
                stack.append({"macros": {}, "warn": None, "shape": shape})
            point(("open", shape), [])
        elif t[0] == "close":
            shape = open_shapes.pop()
            body = bodies.pop()
            info = {"closed": shape, "before-open": open_points.pop(), "last-inside": pid[0] - 1}
            if shape in SCOPES:
                ended = stack[-1] if mode != "no-pop" else {"macros": {}, "warn": None}
                info["ended-had-macros"] = bool(ended["macros"])
                info["ended-had-pragma"] = ended["warn"] is not None
                if mode != "no-pop":
                    stack.pop()
            bodies[-1].append(wrap(shape, body, idx))
            point(("close", shape), [], info)
    return "\n".join(bodies[0]) + "\n", points, names


def option_state(stack, base):
    """Where the option value in force comes from (for the names of the warning obligations)."""
    for i, s in enumerate(reversed(stack)):
        if s["warn"] is not None:
            return ("disabled" if not s["warn"] else "re-enabled") + (" in this scope" if i == 0 else " in an enclosing scope")
    if base["warn"] is not None:
        return ("disabled" if not base["warn"] else "re-enabled") + " at module level"
    return "default"


# ------------------------------------------------------------------------------------------------------------------
# running a program on the real compiler
# ------------------------------------------------------------------------------------------------------------------
def site_of(f):
    try:
        return f()
    except Exception as e:  # noqa: BLE001
        return f"<cannot call: {type(e).__name__}>"


def run_real(src, extra_names):
    """-> dict(snaps={pid: ...}, log={(pid, name): value}, warnings=[(message, category)], exc)"""
    snaps, log, W = {}, {}, []
    mod = types.ModuleType("hv_c35_prog")

    def hv_snap(_hy_compiler, pid):
        c = _hy_compiler
        snaps[int(pid)] = {
            "levels": [{k: site_of(f) for k, f in s["macros"].items()} for s in c.local_state_stack],
            "module": {k: site_of(f) for k, f in c.module._hy_macros.items() if k != "hv_snap"},
            "option": c.get_local_option("warn_on_core_shadow", True),
            "nwarn": len(W),
        }
        return None
    mod._hy_macros = {"hv_snap": hv_snap}
    mod.hv_log = lambda pid, vals: log.__setitem__(pid, vals)
    # run-time fallbacks: what a call means when the name is no macro
    none = lambda *a: "<none>"  # noqa: E731
    for n in ("m1", "m2", "_hid", "my-mac?", "q-x"):
        setattr(mod, mangle(n), none)
    for pfx in list(MODS.values()) + ["P", "Q"]:
        setattr(mod, pfx, types.SimpleNamespace(**{mangle(n): none for n in SRC_MACROS}))
    extra = {mangle(n): (lambda n=n: (lambda *a: f"evalarg:{n}"))() for n in extra_names} if extra_names else None
    exc = None
    with warnings.catch_warnings(record=True) as rec:
        warnings.simplefilter("always")
        W = rec                                   # hv_snap reads the live list
        try:
            hy.eval(hy.read_many(src), locals=mod.__dict__, module=mod, macros=extra)
        except Exception as e:  # noqa: BLE001
            exc = e
        ws = [(str(w.message), w.category.__name__) for w in rec]
    return {"snaps": snaps, "log": log, "warnings": ws, "exc": exc}


def warn_text(name):
    return f"New macro `{name}` will shadow the core macro of the same name"


class _Out:
    """Collects (name, ok, detail); a detail given as a callable is built only when the clause does not hold."""

    def __init__(self):
        self.items = []

    def append(self, t):
        name, ok, det = t
        self.items.append((name, ok, None if ok else (det() if callable(det) else det)))


def compare(history, extra_names, src, points, names, ob, prefix=""):
    """-> list of (obligation name, ok, detail)"""
    out = _Out()
    where = f"history {history} macros-argument={list(extra_names)}"
    runcell = "with a macros argument" if extra_names else "without a macros argument"
    if ob["exc"] is not None:
        out.append((f"run/the generated program compiles and runs/{runcell}", False,
                    lambda: f"{where}: {type(ob['exc']).__name__}: {str(ob['exc'])[:300]}\n{src}"))
        return out.items
    out.append((f"run/the generated program compiles and runs/{runcell}", True, None))
    prev_nwarn = 0
    for p in sorted(points):
        sp = points[p]
        sn = ob["snaps"].get(p)
        ev = sp["event"]
        if sn is None:
            out.append((f"run/every probe point is reached at compile time/{sp['ctx']}", False, lambda: f"{where}: point {p} after {ev} not reached\n{src}"))
            continue
        at = f"{where}, point {p} after {ev} ({sp['ctx']})"
        # ---- tables -------------------------------------------------------------------------------------------------
        evname = {"start": "start", "defmacro": "defmacro", "require": f"require {ev[1] if len(ev) > 1 else ''}".strip(),
                  "pragma": "pragma", "open": f"open {ev[1] if len(ev) > 1 else ''}".strip(),
                  "close": f"close {ev[1] if len(ev) > 1 else ''}".strip()}[ev[0]]
        lvl = "local scope" if sp["depth"] else "module level"
        real_levels = sn["levels"]
        ok_base = bool(real_levels) and real_levels[0] == {}
        obs_levels = real_levels[1:]
        spec_levels = sp["levels"]
        ok_depth = len(obs_levels) == len(spec_levels)
        gen_ok = ok_base and ok_depth
        pairs = list(zip(spec_levels, obs_levels)) + [(sp["module"], sn["module"])] if ok_depth else [(sp["module"], sn["module"])]
        for spec_t, obs_t in pairs:
            want = {k: e.site for k, e in spec_t.items() if not e.doc_only}
            docs = {k: e.site for k, e in spec_t.items() if e.doc_only}
            have = {k: v for k, v in obs_t.items() if k not in docs}
            if want != have:
                gen_ok = False
        if ev[0] not in ("open", "close"):            # (entering and leaving forms: the scope-entry / scope-end / container clauses)
            out.append((f"tables/{evname}/{lvl}", gen_ok,
                        lambda: f"{at}: local tables {obs_levels} module {sn['module']}; expected local "
                                f"{[{k: e.site for k, e in t.items() if not e.doc_only} for t in spec_levels]} module "
                                f"{ {k: e.site for k, e in sp['module'].items() if not e.doc_only} }; base level {real_levels[:1]}\n{src}"))
        if ev[0] == "require" and sp["info"].get("doc-keys"):
            # the names that only the documentation of the prefix forms promises (unexported macros), in the table this
            # event writes to
            tab = (obs_levels[-1] if sp["depth"] and ok_depth else sn["module"]) if (ok_depth or not sp["depth"]) else {}
            doc_bad = [k for k, v in sp["info"]["doc-keys"].items() if tab.get(k) != v]
            srcmod = ev[2] if ev[1] != "two" else "b"
            out.append((f"require-prefix/{ev[1]} form brings in every macro of the module, exported or not/source module "
                        f"{'without' if SRC_EXPORTS[srcmod] is None else 'with'} _hy_export_macros",
                        not doc_bad, lambda: f"{at}: missing {doc_bad} (docs/api.rst: `(require mymodule)` assigns every macro foo in "
                                             f"mymodule to mymodule.foo; _hy_export_macros defines what `*` collects)\n{src}"))
        # ---- scope end ------------------------------------------------------------------------------------------------
        if ev[0] == "close":
            # stated on the observations alone: what the compiler's tables were before the form / at its end
            shape = ev[1]
            if shape in SCOPES:
                b = ob["snaps"].get(sp["info"]["before-open"])
                ok = b is not None and real_levels == b["levels"] and sn["module"] == b["module"]
                out.append((f"scope-end/{shape}/the local table is dropped; the enclosing tables and the module table are as before the scope",
                            ok, lambda: f"{at}: tables {real_levels} module {sn['module']}; before the scope {b}\n{src}"))
            else:
                b = ob["snaps"].get(sp["info"]["last-inside"])
                ok = b is not None and real_levels == b["levels"] and sn["module"] == b["module"]
                out.append((f"container/{shape}/is no macro scope: leaving it changes no table", ok,
                            lambda: f"{at}: tables {real_levels} module {sn['module']}; at the end of the form {b}\n{src}"))
        if ev[0] == "open":
            shape = ev[1]
            b = ob["snaps"].get(p - 1)
            want_levels = None if b is None else b["levels"] + ([{}] if shape in SCOPES else [])
            out.append((f"scope-entry/{shape}/{'opens a new empty local table on top of the enclosing ones' if shape in SCOPES else 'opens no local table'}",
                        real_levels == want_levels and ok_depth, lambda: f"{at}: {real_levels}; expected {want_levels}\n{src}"))
        # ---- option ---------------------------------------------------------------------------------------------------
        if ev[0] in ("pragma", "open", "close", "start"):
            what = ("after a scope with its own pragma ended" if ev[0] == "close" and sp["info"].get("ended-had-pragma")
                    else {"pragma": "after a pragma", "open": "on entering a form", "close": "after a form ended", "start": "at the start"}[ev[0]])
            out.append((f"option/warn-on-core-shadow value {what}/{lvl}", sn["option"] == sp["option"],
                        lambda: f"{at}: option is {sn['option']!r}; expected {sp['option']!r}\n{src}"))
        # ---- warnings of the preceding event --------------------------------------------------------------------------------
        got = ob["warnings"][prev_nwarn:sn["nwarn"]]
        prev_nwarn = sn["nwarn"]
        if ev[0] in ("defmacro", "require"):
            want = [(warn_text(n), "RuntimeWarning") for n in sp["warn"]]
            kind = (f"defmacro of {ev[1]}" if ev[0] == "defmacro" else
                    f"require {ev[1]}: " + ("creates a core macro's name" if sp["info"].get("brings-core") else "creates no core macro's name"))
            out.append((f"warnings/{kind}/option {sp['info']['option-state']}/{lvl}", got == want,
                        lambda: f"{at}: warnings {got}; expected {want}\n{src}"))
        else:
            out.append((f"warnings/no warning from {ev[0]}", got == [], lambda: f"{at}: warnings {got}\n{src}"))
        # ---- lookup ---------------------------------------------------------------------------------------------------
        vals = ob["log"].get(p)
        for i, n in enumerate(names):
            site, ns, doc_only = sp["probes"][n]
            val = vals[i] if vals is not None and len(vals) == len(names) else "<probe not executed>"
            if doc_only:
                cell = f"lookup/{ns}/{sp['ctx']}/unexported macro through a module prefix"
            else:
                cell = f"lookup/{ns}/{sp['ctx']}"
            out.append((cell, val == site, lambda: f"{at}: ({n} 1) gave {val!r}; expected {site!r} from {ns}\n{src}"))
            if ev[0] == "close" and ev[1] in SCOPES and sp["info"].get("ended-had-macros") and not doc_only:
                out.append((f"scope-end/{ev[1]}/calls after the scope resolve to the enclosing definitions again", val == site,
                            lambda: f"{at}: ({n} 1) gave {val!r}; expected {site!r} from {ns}\n{src}"))
    # warnings after the last point (none expected)
    tail = ob["warnings"][prev_nwarn:]
    out.append(("warnings/nothing warns after the last event (run time)", tail == [], lambda: f"{where}: {tail}"))
    return out.items


# ------------------------------------------------------------------------------------------------------------------
# workers
# ------------------------------------------------------------------------------------------------------------------
WRONG_MODES = ("module-first", "no-pop", "star-all")


def _work(job):
    prefix, progs = job
    agg, can, n = {}, {m: 0 for m in WRONG_MODES}, 0
    for i, (history, extra_names) in enumerate(progs):
        src, points, names = build(history, extra_names)
        ob = run_real(src, extra_names)
        res = compare(history, extra_names, src, points, names, ob)
        n += 1
        for name, ok, det in res:
            if prefix:                                # random histories: one obligation per clause
                if name.startswith("require-prefix/"):
                    name = "require-prefix/prefix forms bring in every macro of the module, exported or not"
                elif name.endswith("/unexported macro through a module prefix"):
                    name = "lookup/unexported macro through a module prefix"
                else:
                    name = name.split("/")[0]
            a = agg.setdefault(prefix + name, [0, 0, None, None])
            a[0] += 1
            if not ok:
                a[1] += 1
                if a[2] is None:
                    a[2], a[3] = det, (history, extra_names)
        # must-fail canaries: a deliberately wrong specification must get a different verdict on some observation
        if ob["exc"] is None and i % 6 == 0:
            for m in WRONG_MODES:
                _, wpoints, _ = build(history, extra_names, mode=m)
                right = all(ok for nm, ok, _ in res if "unexported" not in nm and not nm.startswith("require-prefix"))
                wrong = all(ok for nm, ok, _ in compare(history, extra_names, src, wpoints, names, ob)
                            if "unexported" not in nm and not nm.startswith("require-prefix"))
                if right != wrong:
                    can[m] += 1
    return agg, can, n


def _merge(total, part):
    for k, (n, nf, d, h) in part.items():
        a = total.setdefault(k, [0, 0, None, None])
        a[0] += n
        a[1] += nf
        if a[2] is None:
            a[2], a[3] = d, h


def chunks(xs, n):
    k = max(1, (len(xs) + n - 1) // n)
    return [xs[i:i + k] for i in range(0, len(xs), k)]


def histories(alphabet, maxlen):
    for n in range(0, maxlen + 1):
        for h in itertools.product(alphabet, repeat=n):
            if valid(h):
                yield h


def nesting_histories():
    """Every ordered pair of scope-opening forms with the same name defined at module level, in the outer and in the inner
    scope (by defmacro or by require), the pragma set in the outer scope and reset in the inner one, and three levels."""
    out = []
    groups = {"m1": [("def", "m1"), ("req", "a", "names")], "when": [("def", "when"), ("req", "a", "alias")]}
    i = 0
    for s1, s2 in itertools.product(SCOPES, repeat=2):
        for n, evs in groups.items():
            for e1, e2 in itertools.product(evs, repeat=2):
                h = (("def", n), ("open", s1), e1, ("open", s2), e2)
                out.append((h, ((), (n,))[i % 2]))
                i += 1
        out.append(((("open", s1), ("pragma", False), ("open", s2), ("def", "when"), ("pragma", True), ("def", "when"), ("close",),
                     ("def", "when"), ("req", "a", "star")), ()))
    for s1, s2, s3 in itertools.permutations(("fn", "defclass", "lfor", "defn"), 3):
        out.append(((("def", "m1"), ("open", s1), ("def", "m1"), ("open", s2), ("open", s3), ("def", "m1"), ("close",), ("close",)), ()))
        out.append(((("open", s1), ("open", s2), ("def", "m1"), ("open", s3), ("req", "b", "as"), ("close",), ("def", "when")), ("m1",)))
    return out


def random_histories(n, maxlen, seed):
    rng = random.Random(104729 * (seed + 1) + 35)
    alpha = full_alphabet()
    opens = [t for t in alpha if t[0] == "open"]
    out = []
    # fixed anchors first, so that every obligation of the random part exists whatever the seed
    anchors = [
        (("open", "fn"), ("def", "when"), ("pragma", False), ("def", "when"), ("req", "a", "as"), ("close",), ("def", "m1"),
         ("open", "do"), ("req", "a", "star"), ("close",)),
        (("def", "m1"), ("open", "defclass"), ("def", "m1"), ("open", "lfor"), ("def", "m1"), ("close",), ("close",)),
    ]
    for a in anchors:
        out.append((a, ()))
        out.append((a, ("m1", "when")))
    while len(out) < n:
        ln = rng.randint(4, maxlen)
        h, depth = [], 0
        for _ in range(ln):
            r = rng.random()
            if r < 0.22 and depth < 4:
                t = rng.choice(opens)
                depth += 1
            elif r < 0.36 and depth > 0:
                t = ("close",)
                depth -= 1
            else:
                t = rng.choice([x for x in alpha if x[0] not in ("open", "close")])
            h.append(t)
        out.append((tuple(h), rng.choice([(), (), ("m1",), ("when",), ("m1", "when")])))
    return out


# ------------------------------------------------------------------------------------------------------------------
# direct contract on hy.macros.require
# ------------------------------------------------------------------------------------------------------------------
def require_fn_contract(chk):
    """require(source, target, assignments, prefix): docstring + docs/api.rst."""
    for letter, modname in MODS.items():
        src = sys.modules.get(modname) or __import__(modname)
        table = src._hy_macros
        for assignments, aname in (("ALL", "ALL"), ("EXPORTS", "EXPORTS"), ([("m1", "m1")], "[m1]"),
                                   ([("m1", "when"), ("my-mac?", "q-x")], "[m1 :as when, my-mac? :as q-x]"),
                                   ([("_hid", "_hid")], "[_hid]")):
            for prefix in ("", "P"):
                for tkind in ("module", "dict"):
                    if assignments == "ALL":
                        want = [(n, n) for n in SRC_MACROS]
                    elif assignments == "EXPORTS":
                        want = [(n, n) for n in exports_of(letter)]
                    else:
                        want = list(assignments)
                    want_keys = [(mangle((prefix + "." if prefix else "") + alias), mangle(n)) for n, alias in want]
                    if tkind == "module":
                        tmod = types.ModuleType("hv_c35_target")
                        tmod._hy_macros = {"old": len}
                        target, tab = tmod, tmod._hy_macros
                    else:
                        target = tab = {"old": len}
                    try:
                        ret = hmac.require(modname, target, assignments, prefix=prefix)
                        got = [(a, b) for a, b, _ in ret]
                        ok = (got == want_keys and all(f is table[b] for _, b, f in ret)
                              and {k: v for k, v in tab.items() if k != "old"} == {a: table[b] for a, b in want_keys} and tab.get("old") is len)
                        det = f"returned {got} table {sorted(tab)}; expected {want_keys}"
                    except Exception as e:  # noqa: BLE001
                        ok, det = False, f"{type(e).__name__}: {e}"
                    chk.case(("require-fn", letter, aname, prefix, tkind))
                    chk.ob(f"require-fn/{aname}/prefix={prefix or 'none'}/target is a {tkind}/source {letter}", ok, "rtc", "exhaustive_finite",
                           detail=None if ok else f"hy.macros.require({modname!r}, <{tkind}>, {assignments!r}, prefix={prefix!r}): {det}",
                           replay=None if ok else {"confirmed": True, "input": f"hy.macros.require({modname!r}, <{tkind}>, {assignments!r}, prefix={prefix!r})",
                                                   "observed": det, "expected": str(want_keys)})
    # a missing name
    for tkind in ("module", "dict"):
        target = types.ModuleType("hv_c35_target2") if tkind == "module" else {}
        try:
            hmac.require(MODS["a"], target, [("nope", "nope")])
            ok, det = False, "no exception"
        except HyRequireError as e:
            ok, det = True, str(e)
        except Exception as e:  # noqa: BLE001
            ok, det = False, f"{type(e).__name__}: {e}"
        chk.ob(f"require-fn/a missing name raises HyRequireError/target is a {tkind}", ok, "rtc", "exhaustive_finite", detail=det)
    # through the compiler: module level and local scope, and nothing is defined by the failed form
    for where, src in (("module level", f"(require {MODS['a']} [nope])"),
                       ("local scope", f"((fn [] (require {MODS['a']} [m1 nope])))"),
                       ("module level, module without macros", "(require hv_c35_empty [nope])")):
        mod = types.ModuleType("hv_c35_err")
        try:
            hy.eval(hy.read_many(src), locals=mod.__dict__, module=mod)
            ok, det = False, "no exception"
        except HyRequireError as e:
            ok, det = True, str(e)[:200]
        except Exception as e:  # noqa: BLE001
            ok, det = False, f"{type(e).__name__}: {str(e)[:200]}"
        chk.case(("require-error", where))
        chk.ob(f"require-error/(require mod [missing-name]) is a HyRequireError/{where}", ok, "rtc", "exhaustive_finite", detail=det,
               replay=None if ok else {"confirmed": True, "input": src, "observed": det, "expected": "HyRequireError"})


DOC_SRC = '''
(defmacro number []
  1)
(defmacro uses-number []
  '(number))
(defn f []
  (defmacro number []
    2)
  (uses-number))
(setv r1 (uses-number))
(setv r2 (f))
(setv r3 (uses-number))
(defn g []
  (defmacro lmac [] 1)
  #((try (hy.eval '(lmac)) (except [NameError] "NameError")) (hy.eval '(lmac) :macros (local-macros))))
(setv r4 (g))
(defmacro m [] "This is a docstring." '(+ 40 2))
(setv r5 #((in "m" _hy_macros) (m)))
(eval-and-compile (del (get _hy_macros "m")))
(setv r6 (try (m) (except [NameError] "NameError")))
(eval-and-compile (setv (get _hy_macros (hy.mangle "new-mac")) (fn [] '"Goodbye")))
(setv r7 (new-mac))
'''


def doc_examples(chk):
    """The examples of docs/macros.rst (macro namespaces) and of hy.eval's docstring, run as a module."""
    name = "hv_c35_docmod"
    mod = types.ModuleType(name)
    sys.modules[name] = mod
    try:
        try:
            hy.eval(hy.read_many(DOC_SRC), locals=mod.__dict__, module=mod)
            g = mod.__dict__
            checks = {
                "a local macro applies to the results of expanding other macros in its scope, and only there (1, 2, 1)":
                    (g["r1"], g["r2"], g["r3"]) == (1, 2, 1),
                "hy.eval does not see local macros unless given :macros (local-macros)": tuple(g["r4"]) == ("NameError", 1),
                "defmacro at module level puts the macro into _hy_macros": tuple(g["r5"]) == (True, 42),
                "deleting it from _hy_macros at compile time makes the call an ordinary call": g["r6"] == "NameError",
                "a function put into _hy_macros at compile time is a macro": g["r7"] == "Goodbye",
            }
            err = None
        except Exception as e:  # noqa: BLE001
            checks, err = {}, f"{type(e).__name__}: {e}"
        chk.ob("docs/the examples of docs/macros.rst run", err is None, "rtc", "bounded", detail=err)
        for k, ok in checks.items():
            chk.case(("doc", k))
            chk.ob(f"docs/{k}", bool(ok), "rtc", "bounded", detail=None if ok else "the documented example does not hold")
    finally:
        sys.modules.pop(name, None)


def core_shadow_every_name(chk):
    """`defining a macro that shadows a core macro warns unless the pragma disables it`, for EVERY core macro (the history
    enumeration uses `when` only, whose name mangling leaves alone): (defmacro NAME ...) at module level, in a function and in
    a class body, with the option on and off.  Exhaustive over builtins._hy_macros."""
    import types
    bad_on, bad_off, n, skipped = [], [], 0, set()
    for key in sorted(builtins._hy_macros):
        name = hy.unmangle(key)
        try:
            hy.models.Symbol(name)
            if "." in name:
                continue
        except Exception:  # noqa: BLE001
            continue
        for scope, wrap in (("module", "(do {})"), ("function", "(defn hv-f [] {} None)"), ("class", "(defclass HvK [] {})")):
            for option in (True, False):
                body = ("" if option else "(pragma :warn-on-core-shadow False) ") + f"(defmacro {name} [] 1)"
                src = wrap.format(body)
                mod = types.ModuleType("hv_c35_shadow")
                n += 1
                with warnings.catch_warnings(record=True) as w:
                    warnings.simplefilter("always")
                    try:
                        hy.eval(hy.read_many(src), module=mod, locals=mod.__dict__)
                    except Exception as e:  # noqa: BLE001
                        # e.g. a macro named `fn` breaks the expansion of the very defmacro that defines it: no claim
                        skipped.add(name)
                        continue
                msgs = [str(x.message) for x in w if issubclass(x.category, RuntimeWarning) and "shadow the core macro" in str(x.message)]
                if option and len(msgs) != 1:
                    bad_on.append((name, scope, msgs))
                if not option and msgs:
                    bad_off.append((name, scope, msgs))
    chk.evaluations += n
    chk.extra["core names whose redefinition itself fails (no claim)"] = sorted(skipped)
    chk.ob("warn/every core macro name: (defmacro NAME ...) emits exactly one shadow warning (module, function and class scope)",
           not bad_on and len(skipped) <= 4, "rtc", "exhaustive_finite", detail=f"{n} definitions" if not bad_on else f"{len(bad_on)} wrong; first: {bad_on[0]}",
           replay={"confirmed": True, "input": f"(defmacro {bad_on[0][0]} [] 1) at {bad_on[0][1]} level", "observed": str(bad_on[0][2]), "expected": "one RuntimeWarning"} if bad_on else None)
    chk.ob("warn/every core macro name: no shadow warning after (pragma :warn-on-core-shadow False)",
           not bad_off, "rtc", "exhaustive_finite", detail=f"{n} definitions" if not bad_off else f"{len(bad_off)} wrong; first: {bad_off[0]}",
           replay={"confirmed": True, "input": f"(pragma :warn-on-core-shadow False) (defmacro {bad_off[0][0]} [] 1) at {bad_off[0][1]} level", "observed": str(bad_off[0][2]), "expected": "no warning"} if bad_off else None)


# ------------------------------------------------------------------------------------------------------------------
def require_frame(chk):
    """Frame condition of hy.macros.require on the *source* module: it reads the module's macros and export list and writes nothing
    into it - so what a later require brings in is the module's macros of that moment (a module can gain macros after it was first
    required: hy.eval / REPL definitions, its own later requires, circular requires)."""
    import sys
    import types
    import hy
    import hy.macros as hmac
    bad = []
    for variant, req2, use in (("star", "(require hv_c35_src *)", "(m2)"), ("prefix", "(require hv_c35_src)", "(hv_c35_src.m2)"),
                               ("as", "(require hv_c35_src :as S)", "(S.m2)"), ("names", "(require hv_c35_src [m2])", "(m2)")):
        for first in ("(require hv_c35_src [m1])", "(require hv_c35_src *)", "(require hv_c35_src :as Q)"):
            src = types.ModuleType("hv_c35_src")
            sys.modules["hv_c35_src"] = src
            try:
                hy.eval(hy.read_many('(defmacro m1 [] "one") (defmacro _hidden [] "h")'), src.__dict__, module=src)
                before = set(vars(src))
                a = types.ModuleType("hv_c35_a")
                hy.eval(hy.read_many(first + " 1"), a.__dict__, module=a)
                written = sorted(set(vars(src)) - before - {"_hy_macros"})
                hy.eval(hy.read_many('(defmacro m2 [] "two")'), src.__dict__, module=src)
                b = types.ModuleType("hv_c35_b")
                try:
                    got = hy.eval(hy.read_many(f"{req2} {use}"), b.__dict__, module=b)
                except Exception as e:  # noqa: BLE001
                    got = f"{type(e).__name__}: {e}"
            finally:
                sys.modules.pop("hv_c35_src", None)
            chk.case(("require-frame", variant, first))
            if written or got != "two":
                bad.append((first, req2, use, written, got))
    chk.ob("require/frame: requiring writes nothing into the source module; a macro the module gains afterwards is brought in by the next require",
           not bad, "rtc", "exhaustive_finite", detail=str(bad[:2]),
           replay=None if not bad else {"confirmed": True, "input": f"{bad[0][0]} ; the source module gains m2 ; {bad[0][1]} {bad[0][2]}",
                                        "observed": f"written into the source module: {bad[0][3]}; value {bad[0][4]!r}", "expected": "'two'"})


def scope_end_on_errors(chk):
    """"Local macros stop applying when their scope ends" - also when the scope ends by a compile-time error and the same compiler
    goes on compiling (the REPL keeps one compiler for the session; hy_compile accepts a compiler).  Frame condition on
    HyASTCompiler.local_state: the stack of local states is what it was, whichever way the block is left; end to end: after a failed
    fn / defn / defclass / comprehension body with a local defmacro or a pragma, module-level forms see the module's macros only."""
    import io
    import contextlib
    import types
    import warnings
    import hy
    from hy.compiler import HyASTCompiler, hy_compile
    comp = HyASTCompiler(types.ModuleType("hv_c35_ls"))
    depth = len(comp.local_state_stack)
    outcomes = {}
    for how in ("return", "HySyntaxError", "ValueError", "KeyboardInterrupt"):
        try:
            with comp.local_state():
                inner = len(comp.local_state_stack)
                if how == "HySyntaxError":
                    raise hy.errors.HySyntaxError("x")
                if how == "ValueError":
                    raise ValueError("x")
                if how == "KeyboardInterrupt":
                    raise KeyboardInterrupt()
        except BaseException:  # noqa: BLE001
            pass
        outcomes[how] = (inner, len(comp.local_state_stack))
    chk.case("local_state")
    chk.ob("scope-end/HyASTCompiler.local_state pushes one local state and pops it on every exit, normal or exceptional",
           all(v == (depth + 1, depth) for v in outcomes.values()), "structural", "proved", detail=str(outcomes))
    bad = []
    for scope, body in (("defn", "(defn u-f [] {} (setv 1 2))"), ("fn", "(fn [] {} (setv 1 2))"), ("defclass", "(defclass U-C [] {} (setv 1 2))"),
                        ("lfor", "(lfor x [1] (do {} (setv 1 2)))"), ("nested defn", "(defn u-f [] (defn u-g [] {} (setv 1 2)))")):
        mod = types.ModuleType("hv_c35_se")
        comp = HyASTCompiler(mod)

        def ev(src):
            with warnings.catch_warnings(record=True) as w:
                warnings.simplefilter("always")
                try:
                    tree, expr = hy_compile(hy.read_many(src), mod, compiler=comp, get_expr=True, import_stdlib=False)
                    exec(compile(tree, "<c35>", "exec"), mod.__dict__)
                    v = eval(compile(expr, "<c35>", "eval"), mod.__dict__)
                except Exception as e:  # noqa: BLE001
                    v = type(e).__name__
            return v, [str(x.message) for x in w]
        ev('(defmacro greet [] "module greet")')
        failed = ev(body.format('(defmacro greet [] "local greet") (defmacro only-local [] 1) (pragma :warn-on-core-shadow False)'))
        r1 = ev("(greet)")
        r2 = ev("(only-local)")
        r3 = ev('(defmacro when [#* a] "my when")')
        r4 = ev('(defmacro top [] 7)')
        chk.case(("scope-end", scope))
        ok = (failed[0] in ("HySyntaxError", "HyMacroExpansionError") and r1[0] == "module greet" and r2[0] == "NameError"
              and any("shadow" in m for m in r3[1]) and "top" in getattr(mod, "_hy_macros", {}) and len(comp.local_state_stack) == 1)
        if not ok:
            bad.append((scope, failed[0], r1[0], r2[0], r3[1], sorted(getattr(mod, "_hy_macros", {})), len(comp.local_state_stack)))
    chk.ob("scope-end/after a scope whose body failed to compile, the same compiler sees only module macros at module level "
           "(local macros, pragmas and the local-state depth are gone)", not bad, "rtc", "exhaustive_finite", detail=str(bad[:2]),
           replay=None if not bad else {"confirmed": True, "input": f"one compiler: a failing {bad[0][0]} with a local defmacro greet, then (greet) at module level",
                                        "observed": str(bad[0][1:])})


def run(chk):
    global CORE
    chk.level = "other"
    chk.explanation = ("bounded stand-in: the real compiler (hy.eval) is compared with a specification function of the documented "
                       "macro namespaces on every history of defmacro / require / pragma / scope events up to a length bound over "
                       "a finite alphabet, and on longer random histories; histories, names and source modules are bounded")
    chk.fn("hy/macros.py::macroexpand", "hy/macros.py::require", "hy/core/result_macros.py::compile_macro_def",
           "hy/core/result_macros.py::compile_require", "hy/core/result_macros.py::assignment_shape",
           "hy/core/result_macros.py::compile_pragma", "hy/compiler.py::HyASTCompiler.local_state",
           "hy/compiler.py::HyASTCompiler.new_local_state", "hy/compiler.py::HyASTCompiler.warn_on_core_shadow",
           "hy/compiler.py::HyASTCompiler.get_local_option", "hy/compiler.py::hy_eval_user")
    chk.trust("hy.mangle in the specification (C32)", "the plumbing macro hv-snap reading HyASTCompiler.local_state_stack and the "
              "module's _hy_macros at compile time", "run-time values of macro calls as witnesses of the compile-time expansion",
              "the specification function as the reading of docs/macros.rst (macro namespaces), docs/api.rst (require, export, "
              "pragma, hy.eval)")
    CORE = frozenset(builtins._hy_macros)
    core_shadow_every_name(chk)
    scope_end_on_errors(chk)
    require_frame(chk)
    os.makedirs("/root/scratch", exist_ok=True)
    scratch = tempfile.mkdtemp(prefix="c35_", dir="/root/scratch")
    sys.path.insert(0, scratch)
    try:
        write_sources(scratch)
        with warnings.catch_warnings():
            warnings.simplefilter("ignore")
            for m in MODS.values():
                __import__(m)
        quick = chk.tier == "quick"
        full = full_alphabet()
        l_full = 2
        l_red = 3 if quick else 4
        both, exs = ("m1", "when"), ((), ("m1",), ("when",))
        if quick:
            progs_full = [(h, ex) for h in histories(full, 1) for ex in ((), both)]
            progs_full += [(h, ()) for h in histories(medium_alphabet(), 2) if len(h) == 2]
            progs_red = [(h, exs[i % 3]) for i, h in enumerate(h for h in histories(REDUCED, 3) if len(h) == 3)]
        else:
            progs_full = [(h, ex) for h in histories(full, l_full) for ex in ((), both)]
            progs_red = [(h, ex) for h in histories(REDUCED, 3) if len(h) == 3 for ex in exs]
            progs_red += [(h, exs[i % 3]) for i, h in enumerate(h for h in histories(REDUCED4, 4) if len(h) == 4)]
        progs_nest = nesting_histories()
        nrand, rlen = (150, 9) if quick else (1500, 14)
        progs_rand = random_histories(nrand, rlen, chk.seed)
        chk.bounds["full alphabet"] = [" ".join(map(str, t)) for t in full]
        chk.bounds["histories over the full alphabet: length"] = ("0..1 (x macros argument none / {m1, when}); length 2 over the "
                                                                  "alphabet with thinned-out require events" if quick else
                                                                  f"0..{l_full} (x macros argument none / {{m1, when}})")
        chk.bounds["reduced alphabet"] = [" ".join(map(str, t)) for t in REDUCED]
        chk.bounds["reduced alphabet for length 4"] = [" ".join(map(str, t)) for t in REDUCED4]
        chk.bounds["histories over the reduced alphabet: length"] = (f"3..{l_red} (macros argument none / {{m1}} / {{when}}: all three at "
                                                                     "length 3 in the thorough tier, rotating otherwise)")
        chk.bounds["random histories"] = f"{nrand} of length 4..{rlen} over the full alphabet"
        chk.bounds["nesting histories"] = ("every ordered pair of the 7 scope-opening forms x the same name defined at module level, in "
                                           "the outer and in the inner scope (defmacro / require) ; pragma set outside, reset inside; "
                                           "24 three-level nestings")
        chk.bounds["programs"] = {"full": len(progs_full), "reduced": len(progs_red), "nesting": len(progs_nest), "random": len(progs_rand)}
        jobs = [("", c) for c in chunks(progs_full, chk.jobs * 3)] + [("", c) for c in chunks(progs_red, chk.jobs * 3)] + \
               [("", c) for c in chunks(progs_nest, chk.jobs * 2)] + [("random/", c) for c in chunks(progs_rand, chk.jobs * 2)]
        # (measured on the 16-core box: 4 to 8 workers give the shortest wall time; 16 only burn more CPU in the kernel)
        gc.collect()
        gc.freeze()               # the workers' collections then leave the inherited heap alone (no copy-on-write storm)
        try:
            with multiprocessing.get_context("fork").Pool(min(chk.jobs, 8)) as pool:
                parts = pool.map(_work, jobs, chunksize=1)
        finally:
            gc.unfreeze()
        total, cans, nprog = {}, {m: 0 for m in WRONG_MODES}, 0
        for agg, can, n in parts:
            _merge(total, agg)
            for k, v in can.items():
                cans[k] += v
            nprog += n
        for i in range(nprog):
            chk.case(("program", i))
        chk.extra["programs run"] = nprog
        for name, (n, nf, det, h) in sorted(total.items()):
            kind = "bounded" if name.startswith("random/") else "exhaustive_finite"
            rp = None
            if nf and h is not None:
                rp = _confirm(h, name)
            chk.ob(name, nf == 0, "rtc", kind, detail=None if nf == 0 else f"{nf} of {n} observations; first: {det}", replay=rp)
        require_fn_contract(chk)
        doc_examples(chk)
        chk.canary("wrong specification: module macros are looked up before local macros", cans["module-first"] > 0)
        chk.canary("wrong specification: local macros stay when their scope ends", cans["no-pop"] > 0)
        chk.canary("wrong specification: `*` ignores _hy_export_macros", cans["star-all"] > 0)
        for h, ex in (progs_red[len(progs_red) // 2], progs_rand[-1]):
            chk.sample({"history": [" ".join(map(str, t)) for t in h], "macros argument": list(ex), "program": build(h, ex)[0][:600]})
    finally:
        if scratch in sys.path:
            sys.path.remove(scratch)
        for m in list(MODS.values()) + ["hv_c35_empty"]:
            sys.modules.pop(m, None)
        shutil.rmtree(scratch, ignore_errors=True)


def _confirm(h, name):
    history, extra_names = h
    src, points, names = build(history, extra_names)
    ob = run_real(src, extra_names)
    res = compare(history, extra_names, src, points, names, ob)
    bare = name[len("random/"):] if name.startswith("random/") else name
    hit = [(n, d) for n, ok, d in res if not ok and (n == bare or n.startswith(bare.split("/unexported")[0]))]
    return {"confirmed": bool(hit), "input": {"history": [" ".join(map(str, t)) for t in history], "macros argument": list(extra_names),
                                             "program": src}, "observed": hit[0][1][:1500] if hit else None, "expected": bare}


def replay(path):
    from hv.replay import replay_file
    return replay_file(path)
