"""Independent recogniser for Hy numeric literals, written from /repo/docs/syntax.rst ("Numeric literals").

Nothing here imports hy.  The reading of the documentation:

* Python's numeric literals (decimal / 0x / 0o / 0b integers, point and exponent floats, imaginary numbers), optionally
  signed (``-Inf`` and the tests' ``-0.5`` show a sign belongs to the literal).
* Separators ``_`` and ``,``: interchangeable, any number in a row, anywhere *after the first digit* ("Separators before
  the first digit are still forbidden"), but not inside the words ``Inf`` / ``NaN`` (those are case-sensitive words).
  A text without any digit therefore cannot contain a separator.  Only ASCII digits are digits (Python's literal syntax).
* Decimal integers may have leading zeros and stay integers (never octal).
* ``NaN`` and ``Inf`` (signed or not), spelled exactly so; nothing else spells an infinity or a NaN.
* Complex literals "as understood by the constructor for complex": ``a+bj``, ``bj``, ``a+j``, ``+j``; the lone ``j``/``J``
  is an identifier (NEWS: "Fixed the identifier `J` being incorrectly parsed as a complex number").

The *value* of a recognised text is computed by CPython from the separator-free ASCII core (int / float / complex of a
string this module has already recognised), and independently by ast.literal_eval when the text is a Python literal.
"""
import ast
import re
import sys
import unicodedata

SEPS = "_,"
S = r"[_,]*"
DS = rf"(?:[0-9]{S})+"
SIGN = rf"[+-]{S}"
EXPP = rf"[eE]{S}(?:[+-]{S})?{DS}"
FLOATP = rf"(?:{DS}\.{S}(?:{DS})?(?:{EXPP})?|\.{S}{DS}(?:{EXPP})?|{DS}{EXPP})"
INFNAN = rf"(?:Inf|NaN){S}"
ABS = rf"(?:{FLOATP}|{DS}|{INFNAN})"

RE_DEC = re.compile(rf"(?:{SIGN})?{DS}\Z")
RE_RADIX = re.compile(rf"(?:{SIGN})?0{S}(?:[xX]{S}(?:[0-9a-fA-F]{S})+|[oO]{S}(?:[0-7]{S})+|[bB]{S}(?:[01]{S})+)\Z")
RE_FLOAT = re.compile(rf"(?:{SIGN})?(?:{FLOATP}|{INFNAN})\Z")
RE_CPLX = re.compile(rf"(?:(?:{SIGN})?{ABS}[jJ]{S}|(?:{SIGN})?{ABS}{SIGN}(?:{ABS})?[jJ]{S}|{SIGN}[jJ]{S})\Z")
RE_FIRST_DIGIT = re.compile(r"[0-9]")
RE_PY_CHARS = re.compile(r"[0-9a-fA-FxXoOjJ_.+-]*[0-9][0-9a-fA-FxXoOjJ_.+-]*\Z")   # necessary for a Python numeric literal
RE_INFNAN_CI = re.compile(r"infinity|inf|nan", re.I)


def strip_seps(t):
    return t.replace("_", "").replace(",", "")


FIRST_OK = frozenset("0123456789.+-IN")
LAST_OK = frozenset("0123456789abcdefABCDEF_,.jJN")


def spec(t):
    """None if `t` is not a numeric literal by the documentation, else (kind, value) with kind in int/float/complex.
    (spec_full behind a cheap necessary condition on the first and last character; the two are compared exhaustively.)"""
    if not t or t[0] not in FIRST_OK or t[-1] not in LAST_OK:
        return None
    return spec_full(t)


def spec_full(t):
    if not t or not t.isascii():
        return None
    m = RE_FIRST_DIGIT.search(t)
    head = t if m is None else t[:m.start()]
    if "_" in head or "," in head:
        return None
    if RE_DEC.match(t):
        return ("int", int(strip_seps(t), 10))
    if RE_RADIX.match(t):
        return ("int", int(strip_seps(t), 0))
    if RE_FLOAT.match(t):
        return ("float", float(strip_seps(t)))
    if RE_CPLX.match(t):
        return ("complex", complex(strip_seps(t)))
    return None


PY_FIRST = frozenset("0123456789.+-")


def python_literal(t):
    """(kind, value) if `t` is accepted by CPython as a numeric literal expression (ast.literal_eval), else None."""
    if not t or t[0] not in PY_FIRST or not RE_PY_CHARS.match(t):
        return None
    try:
        v = ast.literal_eval(t)
    except (ValueError, SyntaxError, MemoryError, RecursionError):
        return None
    if type(v) is int:
        return ("int", v)
    if type(v) is float:
        return ("float", v)
    if type(v) is complex:
        return ("complex", v)
    return None


def _python_style_separators(t, radix):
    """Are all separators of `t` where Python would allow an underscore (between digits, or right after a radix prefix)?"""
    u = t.replace(",", "_")
    if "_" not in u:
        return True
    if radix:
        return re.fullmatch(r"[+-]?0[xXoObB](?:_?[0-9a-fA-F])+", u) is not None
    return re.fullmatch(r"(?:[^_]|(?<=[0-9])_(?=[0-9]))*", u) is not None


def extension_class(t, sp):
    """Which documented extensions a spec-number that is not a Python literal uses (label of its obligation)."""
    tags = []
    core = strip_seps(t)
    radix = RE_RADIX.match(t) is not None
    if "Inf" in t or "NaN" in t:
        tags.append("inf-nan")
    if sp[0] == "int" and not radix and re.match(r"[+-]?0[0-9]", core) and sp[1] != 0:
        tags.append("leading-zero-integer")
        if t[0] in "+-":
            tags.append("signed")
    if not _python_style_separators(t, radix):
        tags.append("free-separator-placement")
    elif "," in t:
        tags.append("comma")
    elif "_" in t and "leading-zero-integer" in tags:
        tags.append("underscore")
    if sp[0] == "complex" and re.search(r"[+-][jJ]", core):
        tags.append("unit-imaginary")
    return "+".join(tags) or "other-extension"


_ND = {i: str(unicodedata.decimal(chr(i))) for i in range(128, sys.maxunicode + 1) if unicodedata.category(chr(i)) == "Nd"}


def _ascii_digits(t):
    return t if t.isascii() else t.translate(_ND)


def _drop_early_seps(t):
    m = RE_FIRST_DIGIT.search(t)
    if m is None:
        return strip_seps(t)
    return strip_seps(t[:m.start()]) + t[m.start():]


def _fix_case(t):
    lo = t.lower()
    if "inf" not in lo and "nan" not in lo:
        return t
    return RE_INFNAN_CI.sub(lambda m: "NaN" if m.group().lower() == "nan" else "Inf", t)


def near_miss_class(t):
    """For a text that is NOT a number by spec: which documented boundary it sits next to (label of its obligation).
    The transformations are applied in a fixed order and the labels of those that changed the text are joined; the
    result is 'other' when the text is not a number even after all of them."""
    lo = t.lower()
    quick = t.isascii() and "_" not in t and "," not in t and "inf" not in lo and "nan" not in lo
    if quick:
        return "other"
    tags = []
    u = _ascii_digits(t)
    if u != t:
        tags.append("non-ascii-digit")
    v = _drop_early_seps(u)
    if v != u:
        m = RE_FIRST_DIGIT.search(u)
        if u[0] in SEPS:
            tags.append("separator-first")
        elif m is None:
            tags.append("separator-without-digit")
        else:
            tags.append("separator-after-sign-or-dot")
    w = _fix_case(v)
    if w != v:
        tags.append("Infinity-spelling" if "infinity" in v.lower() else "inf-nan-capitalisation")
    if spec(w) is not None and tags:
        return "+".join(tags)
    x = strip_seps(w)
    if x != w and spec(_fix_case(x)) is not None:
        return "+".join(tags + ["separator-inside-inf-nan"])
    if x in ("j", "J") and strip_seps(t) == x:
        return "separator-after-bare-j"
    return "other"
