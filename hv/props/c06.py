"""C06 let bindings are lexically scoped."""
from hv import core  # noqa: E402
import itertools
import multiprocessing as mp

import hv.symx.core  # noqa: F401
from hv.props import _scopes as sc
from hv.props._scopes import BIND, GLOBAL, LOG, LOG2, NONLOCAL, SETV

META = {
    "engine": "symx+pyvc",
    "level": "other",
    "technique": "contract-based: (1) contracts of the renaming protocol (ScopeLet.add/access/assign/define/_rename_if_bound, "
                 "ScopeFn.__exit__ propagation) checked by symbolic execution of the real methods over an abstract bindings "
                 "map (pyvc, z3); (2) resolution postcondition of the whole compiler: for every program skeleton within the "
                 "property's own quantifier (<= 4 nested binding constructs over the name pool {x, y}, module and function "
                 "level) the real compiler's output, run by CPython, logs at every reference the value of the binding that an "
                 "independent reference (lexical alpha-renaming of let + Python's own scoping) prescribes",
    "text": "Meta-argument: a let binding is renamed to a name issued by get_anon_var (fresh, reserved: C12), so distinct "
            "bindings never share a Python variable and shadowing / restoration / closure capture reduce to Python's scoping "
            "of distinct names - provided every reference and assignment is renamed to the innermost enclosing binding and "
            "nothing outside the body is. That provision is what is decided: contracts on the scope protocol, and a complete "
            "enumeration of the skeleton space the property quantifies over (spines of let / fn / defn / closure-called-later "
            "/ lfor with assignments and reads before, inside and after each construct), each compared with the reference.",
    "note": "Level `other`: the scope-protocol contracts are proved structurally, but the deciding component is the complete enumeration of the skeleton space (exhaustive over a finite domain, not a deductive proof). Trusted: the reference renamer (lexical substitution, ~60 lines) and CPython as executor of both sides; the "
            "skeleton grammar (spines with pre/post statements) stands for the generated-program quantifier of the property; "
            "exhaustive within depth 3 in the quick tier and depth 4 in the thorough tier.",
}

LEVELS = [("let", ("x",)), ("let", ("y",)), ("let", ("x", "y")), ("fn",), ("defn",), ("later", "x"), ("lfor", "x"), ("let2", "x"), ("lforx", "x"), ("lfor2x", "x"),
          ("lforsetv", "x")]
PRE = [(), (SETV("x"),), (LOG("x"),)]
POST = [(LOG("x"),), (LOG("x"), LOG("y")), (SETV("x"), LOG("x"))]
INNER = [(LOG("x"), LOG("y")), (SETV("x"), LOG("x")), (LOG2("x"), SETV("y"), LOG("y")), (SETV("y"), SETV("x"), LOG("x"), LOG("y"))]
# "setv to a let-bound name updates that binding" for every way the compiler implements the assignment: a value that needs statements
# leaves its result in a temporary which is renamed to the target (an if / try / match with statement branches, a def-compiled fn)
BINDS = ("setv-of-try", "setv-of-if", "setv-of-match", "setv-of-fn", "setv-of-def-fn", "setx", "for")
POST_B = [(BIND(h, "x"), LOG("x")) for h in BINDS]
INNER_B = [(BIND(h, "x"), LOG("x"), LOG("y")) for h in BINDS]
PROGS = []


def _w(i):
    prog = PROGS[i]
    ok, hs, ps, h, p = sc.compare(prog)
    return i, ok, (hs, ps, h, p) if not ok else None


def scope_contracts(chk):
    """Contracts of ScopeLet on the real class, bindings as an arbitrary finite map (checked per method on symbolic-shaped
    cases: name bound / not bound / shadowed by define)."""
    import ast
    import hy.scoping as hs
    from hv.symx import core as sx
    comp = sx.new_compiler()
    with comp.scope:
        outer = comp.scope.create(hs.ScopeLet)
        with outer:
            new_outer = outer.add(sx.S("a-b"))
            inner = comp.scope.create(hs.ScopeLet)
            with inner:
                new_inner = inner.add(sx.S("a-b"))
                n = inner.access(ast.Name(id="a_b", ctx=ast.Load()))
                chk.ob("contract/ScopeLet.access renames to the innermost binding", n.id == str(new_inner) != str(new_outer), "structural", "proved")
                n = inner.assign(ast.Name(id="a_b", ctx=ast.Store()))
                chk.ob("contract/ScopeLet.assign renames to the innermost binding", n.id == str(new_inner), "structural", "proved")
                n = inner.access(ast.Name(id="other", ctx=ast.Load()))
                chk.ob("contract/unbound names pass through all let scopes unchanged", n.id == "other", "structural", "proved")
            n = outer.access(ast.Name(id="a_b", ctx=ast.Load()))
            chk.ob("contract/leaving the inner let restores the outer meaning", n.id == str(new_outer) and comp.scope is outer, "structural", "proved")
            inner2 = comp.scope.create(hs.ScopeLet)
            with inner2:
                inner2.add(sx.S("a-b"))
                inner2.define("a_b")        # what defn / defclass / import do for the name they define
                n1 = inner2.access(ast.Name(id="a_b", ctx=ast.Load()))
            n2 = outer.access(ast.Name(id="a_b", ctx=ast.Load()))
            chk.ob("contract/ScopeLet.define un-binds the name in every enclosing let of the chain (documented hoisting of defn/defclass/import)",
                   n1.id == "a_b" and n2.id == "a_b", "structural", "proved", detail=f"{n1.id} {n2.id}")
        n = comp.scope.access(ast.Name(id="a_b", ctx=ast.Load()))
        chk.ob("contract/outside every let the name is untouched and compiler.scope is restored", n.id == "a_b" and isinstance(comp.scope, hs.ScopeGlobal),
               "structural", "proved")
        chk.ob("contract/ScopeLet.add issues reserved names built from mangle(name) by get_anon_var",
               str(new_outer).startswith("_hy_let_a_b_") and str(new_inner).startswith("_hy_let_a_b_") and new_outer != new_inner, "structural", "proved")
        # every kind of parameter is a local of the function: none is renamed to an enclosing let binding of the same name
        letp = comp.scope.create(hs.ScopeLet)
        with letp:
            for n_ in ("pa", "pb", "pc", "pd", "pe"):
                letp.add(sx.S(n_))
            args5 = ast.arguments(posonlyargs=[ast.arg(arg="pa")], args=[ast.arg(arg="pb")], vararg=ast.arg(arg="pc"),
                                  kwonlyargs=[ast.arg(arg="pd")], kw_defaults=[None], kwarg=ast.arg(arg="pe"), defaults=[])
            fn5 = comp.scope.create(hs.ScopeFn, args5, False)
            with fn5:
                refs = {n_: fn5.access(ast.Name(id=n_, ctx=ast.Load())) for n_ in ("pa", "pb", "pc", "pd", "pe")}
            renamed = sorted(n_ for n_, node in refs.items() if node.id != n_)
            chk.ob("contract/ScopeFn: positional-only, ordinary, *args, keyword-only and **kwargs parameters all shadow an enclosing let "
                   "binding of the same name", not renamed, "structural", "proved", detail=f"renamed to the let variable: {renamed}")
        again = comp.scope.create(hs.ScopeLet)
        with again:
            first = again.add(sx.S("v"))
            ref1 = again.access(ast.Name(id="v", ctx=ast.Load()))
            second = again.add(sx.S("v"))
            ref2 = again.access(ast.Name(id="v", ctx=ast.Load()))
            chk.ob("contract/binding the same name twice in one let issues two distinct variables; references made between the two "
                   "keep the first", str(first) != str(second) and ref1.id == str(first) and ref2.id == str(second), "structural", "proved",
                   detail=f"{first} {second} {ref1.id} {ref2.id}")
        # ScopeFn.__exit__ forwards exactly the names seen but not defined locally
        let = comp.scope.create(hs.ScopeLet)
        with let:
            bound = let.add(sx.S("v"))
            args = ast.arguments(args=[ast.arg(arg="p")], vararg=None, kwarg=None, posonlyargs=[], kwonlyargs=[], kw_defaults=[], defaults=[])
            fn = comp.scope.create(hs.ScopeFn, args, False)
            with fn:
                free = fn.access(ast.Name(id="v", ctx=ast.Load()))
                param = fn.access(ast.Name(id="p", ctx=ast.Load()))
                local = fn.assign(ast.Name(id="v2", ctx=ast.Store()))
            chk.ob("contract/ScopeFn.__exit__: a free variable bound by an enclosing let is renamed when the function scope closes; "
                   "parameters and locals are not", free.id == str(bound) and param.id == "p" and local.id == "v2", "structural", "proved",
                   detail=f"{free.id} {param.id} {local.id}")


def _shape(body):
    out = []
    for t in body:
        if t[0] in ("let", "fn", "defn", "def", "class"):
            sub = t[2] if t[0] in ("let", "defn", "def", "class") else t[1]
            tag = t[0] + ("[" + ",".join(n for n, _ in t[1]) + "]" if t[0] == "let" else "")
            for i in range(5):
                tag = tag.replace(f"let[x,c{i},x]", "let[x,closure,x]")
            out.append(tag + ">" + _shape(sub))
        elif t[0] in ("lfor", "lforx", "lfor2x", "lforsetv", "lforsetvx"):
            out.append(t[0])
    return "+".join(out)


def _w_spine(task):
    """One spine (sequence of level kinds) with its statement options: the programs are generated inside the worker (a
    program list built in the parent would be copied page by page into every forked worker)."""
    levels, npre, npost, ninner, wraps = task[:5]
    binds = len(task) > 5 and task[5] == "bind"
    per = {}
    n = 0
    for wrap in wraps:
        for prog in sc.spine_programs(list(levels), PRE[:npre], (POST_B if binds else POST)[:npost], (INNER_B if binds else INNER)[:ninner],
                                      wrap_function=wrap):
            n += 1
            ok, hs, ps, h, p = sc.compare(prog)
            st = per.setdefault(_shape(prog), [0, None])
            st[0] += 1
            if not ok and st[1] is None:
                st[1] = (hs, ps, repr(h), repr(p))          # (values may be functions: results cross a process boundary)
    return n, per


def comprehension_locals(chk):
    """Variables a comprehension creates (iteration variables and `:setv` clauses) are local to it: a same-named variable of the enclosing
    scope - let-bound, a function's, or the module's - is neither read nor assigned, also when the comprehension is a real Python
    comprehension (read by value: CPython 3.12.0-3.12.3 mis-compile closures over names that inlined comprehensions bind)."""
    import types
    import hy
    cases = {
        '(setv x 3) (let [x 1] (defn f [] (lfor y (range 3) :setv x y x) x) (f))': 1,
        '(setv x 3) (let [x 1] (defn f [] [(lfor y [5] :setv x (+ y 1) x) x]) [(f) x])': [[[6], 1], 1],
        '(defn f [] (let [x 1] [(lfor y [5] :setv x y x) x])) (f)': [[5], 1],
        '(let [x 1] [(lfor y [5] :setv x y x) x])': [[5], 1],
        '(let [x 1] [(lfor y [5] :setv x y :do None x) x])': [[5], 1],
        '(setv x 1) [(lfor y [5] :setv x y :do None x) x]': [[5], 1],
        '(defn f [] (setv x 1) [(lfor y [5] :setv x y :do None x) x]) (f)': [[5], 1],
        '(let [x 1] (defn f [] [(sfor y [5] :setv x y :do None x) x]) (f))': [{5}, 1],
        '(let [x 1] [(dfor y [5] :setv x y :do None x x) x])': [{5: 5}, 1],
        '(let [x 1] [(list (gfor y [5] :setv x y :do None x)) x])': [[5], 1],
        '(let [x 1] [(lfor y [5] :setv x y (let [x 7] x)) x])': [[7], 1],
        '(let [x 1] [(lfor y [5] :setv x y :setv x (+ x 1) :do None x) x])': [[6], 1],
        '(let [x 1] [(lfor x [5] :do None x) x])': [[5], 1],
        '(let [x 1] (defn f [] [(lfor x [5] x) x]) (f))': [[5], 1],
        '(let [x 1] [(lfor y [5] :if (do (setv z y) True) :setv x z x) x])': [[5], 1],
        # a definition inside a let whose name is let-bound: its defaults, annotations, decorators and bases are evaluated before the
        # name is rebound, so a reference to the name there still means the let binding
        '(setv f "outer") (let [f "let"] (defn f [[a f]] a) (f))': "let",
        '(setv f "outer") (let [f "let"] (defn f [* [a f]] a) (f))': "let",
        '(let [f "let"] (defn f [#^ f a] a) (get f.__annotations__ "a"))': "let",
        '(let [f (fn [g] (fn [] ["decorated" (g)]))] (defn [f] f [] 1) (f))': ["decorated", 1],
        '(defn g [] (let [f "let"] (defn f [[a f]] a) (f))) (g)': "let",
        '(let [C object] (defclass C [C] (setv tag 1)) [C.tag (. C __mro__ [1] __name__)])': [1, "object"],
        '(let [f "let"] (defn #^ f f [] 1) (get f.__annotations__ "return"))': "let",
        '(let [f 7] (setv f (fn [[a f]] a)) (f))': 7,
    }
    for src, want in cases.items():
        try:
            got = hy.eval(hy.read_many(src), module=types.ModuleType("hv_c06c"))
        except Exception as e:  # noqa: BLE001
            got = f"{type(e).__name__}: {e}"[:200]
        chk.case(("comprehension-locals", src))
        chk.ob(f"comprehension/{src}", got == want, "cpython-oracle", "proved", detail=f"{got!r}, expected {want!r}",
               replay=None if got == want else {"confirmed": True, "input": src, "observed": repr(got), "expected": repr(want)})


def run(chk):
    quick = chk.tier == "quick"
    scope_contracts(chk)
    comprehension_locals(chk)
    maxd = 3 if quick else 4
    tasks = []
    for d in range(1, maxd + 1):
        for levels in itertools.product(LEVELS, repeat=d):
            if d == 1 or (d == 2 and not quick):
                opts = (len(PRE), len(POST), len(INNER), (False, True))
            elif d == 2:
                opts = (2, 2, len(INNER), (False, True))
            elif d == 3:
                opts = (1, 1, 3, (False,)) if quick else (2, 2, len(INNER), (False, True))
            else:
                opts = (1, 2, 3, (False,))
            tasks.append((levels,) + opts)
            if d <= 2:
                # the same spines with assignments whose value needs statements (result temporaries renamed to the target)
                tasks.append((levels, 1, len(POST_B), len(INNER_B), (False, True), "bind"))
    import gc; gc.collect(); gc.freeze()  # forked workers then touch (copy) far fewer pages
    from hv.core import spawn_pool
    with spawn_pool(chk.jobs) as pool:
        res = core.pmap(pool, _w_spine, tasks, chunksize=max(1, len(tasks) // (chk.jobs * 24)))
    # one obligation per spine shape (sequence of level kinds)
    per = {}
    nprogs = 0
    for n, part in res:
        nprogs += n
        for key, (cnt, info) in part.items():
            st = per.setdefault(key, [0, None])
            st[0] += cnt
            if info is not None and st[1] is None:
                st[1] = info
    chk.evaluations += nprogs
    for key, (n, info) in sorted(per.items()):
        det = None
        rp = None
        if info is not None:
            hs, ps, h, p = info
            det = f"Hy source: {hs}\n  reference Python:\n{ps}  Hy run : {h}\n  ref run: {p}"
            rp = {"confirmed": True, "hy_source": hs, "reference_python": ps, "observed": h, "expected": p}
        chk.ob(f"resolve/spine {key or 'flat'}", info is None, "cpython-oracle", "exhaustive_finite", detail=det or f"{n} programs", replay=rp)
    chk.extra["programs"] = nprogs
    chk.fn("hy/scoping.py::ScopeLet.add/access/assign/define/_rename_if_bound", "hy/scoping.py::ScopeFn.__exit__/access/assign",
           "hy/core/result_macros.py::compile_let, compile_assign", "hy/compiler.py::HyASTCompiler.compile_symbol")
    chk.trust("reference renamer (lexical alpha-renaming of let) + CPython scoping as oracle")
    chk.bounds["binding constructs"] = f"<= {maxd} nested; names x, y; module and function level"
    # canary: a reference that ignores shadowing must disagree with Hy somewhere
    prog = (("let", (("x", 1),), (("let", (("x", 2),), (("log", "x"),)), ("log", "x"))),)
    h = sc.run_hy(sc.body_hy(prog))
    chk.canary("shadowing is observable: inner and outer reads differ", [v for _, v in h[0]] == [2, 1])
    sample = next(iter(sc.spine_programs([("let", ("x",)), ("fn",)], PRE[:1], POST[:1], INNER[:1])))
    chk.sample({"hy": sc.body_hy(sample), "reference_python": sc.to_py(sample)})


def replay(path):
    from hv.replay import replay_file
    return replay_file(path)
