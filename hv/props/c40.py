"""C40 the REPL evaluates incremental input like a script and tracks *1 *2 *3 *e."""
import code
import contextlib
import io
import itertools
import random
import sys
import types

import hv.symx.core  # noqa: F401
import hy
import hy.repl
from hy.reader import mangle

META = {
    "engine": "symx",
    "level": "proof",
    "technique": "contract-based: history invariant of REPL.runsource / REPL.runcode decided by complete case analysis of the "
                 "real methods from an arbitrary invariant-satisfying state, with the base-class "
                 "code.InteractiveInterpreter.runsource cut at its contract (incomplete -> True; syntax error -> "
                 "showsyntaxerror, False; otherwise runcode(code), False) and the compiled code scripted to return a value, "
                 "return None or raise; induction over the input history",
    "text": "Ghost history of (input id, value) pairs: from any state in which *1 *2 *3 hold the results of three distinct "
            "earlier inputs, one call of runsource is explored for every outcome vector {incomplete, syntax error, compile-time "
            "Hy error of each class, evaluates to a value, evaluates to None, raises at run time, output function raises}: "
            "after a successful input (*1,*2,*3) == (its value, old *1, old *2); an incomplete or failed input leaves them "
            "unchanged, so no two of them ever hold one input's result; the value is printed iff it is not None; *e is the "
            "latest uncaught exception; the return value asks for more input exactly for incomplete text. "
            "HyCommandCompiler returns None (more input) exactly on PrematureEndOfInput. By induction the invariant holds "
            "after every history. A bounded run feeds real programs line by line to a real REPL.",
    "note": "Trusted: the contract of code.InteractiveInterpreter.runsource/codeop (read from CPython 3.12's code.py); "
            "sys.excepthook prints the traceback. The line-by-line incremental part is a bounded stand-in.",
}

S1, S2, S3 = (mangle(f"*{i}") for i in (1, 2, 3))
SE = mangle("*e")


class Script:
    """Scripted replacement for code.InteractiveInterpreter.runsource implementing its contract."""

    def __init__(self, outcome, value=None):
        self.outcome, self.value = outcome, value

    def __call__(self, repl, source, filename="<input>", symbol="single"):
        o = self.outcome
        if o == "incomplete":
            return True
        if o == "syntax-error":
            try:
                raise SyntaxError("scripted")
            except SyntaxError:
                repl.showsyntaxerror(filename)
            return False
        if o.startswith("hy-"):
            from hy.errors import HyMacroExpansionError, HyRequireError, HyTypeError
            cls = {"hy-macro": HyMacroExpansionError, "hy-require": HyRequireError, "hy-type": HyTypeError}[o]
            raise cls("scripted") if cls is not HyRequireError else cls("scripted")
        val = self.value
        stmts = compile("pass", "<s>", "exec")
        if o == "raises":
            expr = compile("1/0", "<s>", "eval")
        elif o == "stmt-raises":
            stmts = compile("raise KeyError('k')", "<s>", "exec")
            expr = compile("None", "<s>", "eval")
        else:
            repl.locals["_hv_val"] = val
            expr = compile("_hv_val", "<s>", "eval")
        repl.runcode((stmts, expr))
        return False


def new_repl(output_fn=None):
    with contextlib.redirect_stdout(io.StringIO()):
        r = hy.repl.REPL(output_fn=output_fn, locals={"__name__": f"hv_c40_{id(object())}"})
    return r


def case_analysis(chk):
    real = code.InteractiveConsole.runsource
    A, B, C = object(), object(), object()
    outcomes = ["incomplete", "syntax-error", "hy-macro", "hy-require", "hy-type", "value", "none", "raises", "stmt-raises"]
    try:
        for outcome, out_fn, prior_failed, prior_flag in itertools.product(outcomes, ("ok", "raises"), (False, True), (False, True)):
            r = new_repl(output_fn=(lambda v: "OUT") if out_fn == "ok" else (lambda v: (_ for _ in ()).throw(RuntimeError("out"))))
            # arbitrary state satisfying the invariant: three distinct earlier results; last_value is the latest one
            r.locals[S1], r.locals[S2], r.locals[S3] = A, B, C
            r.last_value = A
            r.locals[SE] = None
            if prior_failed:
                r.print_last_value = False
            # every piece of per-input state the previous input may have left behind is part of the arbitrary start state
            r.has_new_value = prior_flag
            V = object()
            script = Script(outcome, V if outcome == "value" else None)
            code.InteractiveConsole.runsource = (lambda sc: (lambda self, *a, **k: sc(self, *a, **k)))(script)
            buf, err = io.StringIO(), io.StringIO()
            hook = sys.excepthook
            sys.excepthook = lambda *a: None
            try:
                with contextlib.redirect_stdout(buf), contextlib.redirect_stderr(err):
                    res = r.runsource("scripted")
            finally:
                sys.excepthook = hook
            got = (r.locals[S1], r.locals[S2], r.locals[S3])
            name = (f"history/outcome={outcome}/output_fn={out_fn}/previous input {'failed' if prior_failed else 'succeeded'}"
                    f"/stale new-value flag {'set' if prior_flag else 'clear'}")
            chk.case(name)
            succeeded = outcome in ("value", "none")
            if succeeded:
                want = ((V if outcome == "value" else None), A, B)
            else:
                want = (A, B, C)
            ok = all(x is y for x, y in zip(got, want))
            dup = len({id(x) for x in got if x is not None}) != len([x for x in got if x is not None])
            det = f"(*1,*2,*3) identities: got {['VABC?'[[V, A, B, C].index(x)] if x in (V, A, B, C) else x for x in got]}, " \
                  f"want {['VABC?'[[V, A, B, C].index(x)] if x in (V, A, B, C) else x for x in want]}; returned {res!r}; printed {buf.getvalue()!r}"
            chk.ob(name + "/results shift exactly on success; a failed or incomplete input changes nothing", ok and not dup, "structural", "proved",
                   detail=det, replay={"confirmed": not (ok and not dup), "input": f"runsource outcome {outcome}", "observed": det})
            chk.ob(name + "/asks for more input exactly when the text is incomplete", (res is True) == (outcome == "incomplete") and res in (True, False),
                   "structural", "proved", detail=repr(res))
            printed = buf.getvalue()
            should_print = outcome == "value" and out_fn == "ok"
            chk.ob(name + "/prints the value iff the input succeeded with a non-None value", ("OUT" in printed) == should_print, "structural", "proved",
                   detail=repr(printed))
            if outcome in ("raises", "stmt-raises", "syntax-error", "hy-macro", "hy-require", "hy-type"):
                chk.ob(name + "/*e holds the exception of this input", isinstance(r.locals.get(SE), BaseException), "structural", "proved",
                       detail=repr(r.locals.get(SE)))
    finally:
        code.InteractiveConsole.runsource = real


def command_compiler(chk):
    from hy.reader.exceptions import PrematureEndOfInput
    r = new_repl()
    cc = r.compile
    for src, want in (("(+ 1", None), ('"abc', None), ("(+ 1 1)", "code"), ("#[[x", None), ("'", None)):
        try:
            out = cc(src, "<c40>", "exec")
            kind = None if out is None else "code"
        except SyntaxError as e:
            kind = type(e).__name__
        chk.ob(f"compiler/HyCommandCompiler returns None (more input) exactly for incomplete text: {src!r}", kind == want, "structural", "proved",
               detail=repr(kind))
    cc2 = hy.repl.HyCommandCompiler(r.module, r.locals, hy_compiler=r.hy_compiler, allow_incomplete=False)
    try:
        cc2("(+ 1", "<c40>", "exec")
        ok = False
    except PrematureEndOfInput:
        ok = True
    chk.ob("compiler/with allow_incomplete=False PrematureEndOfInput propagates", ok, "structural", "proved")
    for src in ("(+ 1 1))", "(]", '"\\q"'):
        try:
            cc(src, "<c40>", "exec")
            kind = "no error"
        except PrematureEndOfInput:
            kind = "PrematureEndOfInput"
        except SyntaxError:
            kind = "SyntaxError"
        chk.ob(f"compiler/malformed but complete text is a syntax error, not a request for more input: {src!r}", kind == "SyntaxError",
               "structural", "proved", detail=kind)


def incremental(chk):
    """Bounded: real programs fed line by line; the REPL must ask for more input exactly while the text is incomplete and
    print what evaluating the forms in order gives."""
    rng = random.Random(chk.seed)
    progs = ["(setv x 1)\n(+ x\n   2)\n", "(defn f [a]\n  (* a\n     2))\n(f 21)\n", '(print "hi")\n[1\n 2\n 3]\n', "(setv s #[[a\nb]])\ns\n",
             "(/ 1 0)\n(+ 1 1)\n", "None\n(do\n  1\n  None)\n7\n", '(setv y f"a{(+ 1\n 1)}b")\ny\n', "(undefined-fn)\n*1\n"]
    bad = None
    for prog in progs:
        r = new_repl()
        buf = io.StringIO()
        acc = ""
        hook = sys.excepthook
        sys.excepthook = lambda *a: None
        try:
            with contextlib.redirect_stdout(buf), contextlib.redirect_stderr(io.StringIO()):
                for line in prog.splitlines():
                    acc = acc + ("\n" if acc else "") + line
                    more = r.runsource(acc)
                    try:
                        list(hy.read_many(acc))
                        incomplete = False
                    except hy.PrematureEndOfInput:
                        incomplete = True
                    except Exception:  # noqa: BLE001
                        incomplete = False
                    chk.case((prog, line))
                    if bool(more) != incomplete and bad is None:
                        bad = (prog, acc, more, incomplete)
                    if not more:
                        acc = ""
        finally:
            sys.excepthook = hook
    chk.ob("rtc/line-by-line input: more input is requested exactly while the accumulated text is incomplete", bad is None, "rtc", "bounded",
           detail=str(bad))
    # "then evaluates it and prints each non-None result as the same forms evaluated in order would give": every completed input is
    # also evaluated as a script chunk (hy.eval over the lazily read forms, so compile-time effects of a form - defmacro, defreader,
    # require - are in force when the next form is read) in a namespace of its own; standard output must agree chunk by chunk
    progs_out = progs + ["(defreader ver 1) [#ver #ver]\n", "(defreader ver 1)\n#ver\n(defreader ver 2) [#ver\n  #ver]\n#ver\n",
                         "(defmacro m [] 5) (m)\n(defmacro m [] 6) [(m)\n (m)]\n", "(print 1) (print 2) 3\n", "(setv a 1) (setv b\n 2) [a b]\n",
                         "(defreader up (.upper (str (.parse-one-form &reader)))) #up abc\n", "(defn f [] 1) (f)\n(f) (f)\n",
                         "(defmacro twice [x] `(do ~x ~x)) (twice (print \"t\"))\n"]
    bad_out = None
    n_chunks = 0
    for prog in progs_out:
        r = new_repl()
        mod = types.ModuleType("hv_c40_script")
        from hy.reader.hy_reader import HyReader
        rdr = HyReader()          # one reader for the whole script, as for a file
        acc = ""
        hook = sys.excepthook
        sys.excepthook = lambda *a: None
        try:
            for line in prog.splitlines():
                acc = acc + ("\n" if acc else "") + line
                buf = io.StringIO()
                with contextlib.redirect_stdout(buf), contextlib.redirect_stderr(io.StringIO()):
                    more = r.runsource(acc)
                if more:
                    continue
                n_chunks += 1
                want = io.StringIO()
                with contextlib.redirect_stdout(want), contextlib.redirect_stderr(io.StringIO()):
                    try:
                        v = hy.eval(hy.read_many(acc, reader=rdr), mod.__dict__, module=mod)
                        if v is not None:
                            print(hy.repr(v))
                    except BaseException:  # noqa: BLE001
                        pass
                chk.case(("out", prog, line))
                if buf.getvalue() != want.getvalue() and bad_out is None:
                    bad_out = (acc, buf.getvalue(), want.getvalue())
                acc = ""
        finally:
            sys.excepthook = hook
    chk.ob("rtc/line-by-line input: each completed input prints what evaluating its forms in order as a script prints (compile-time effects "
           "of a form are in force when the next form is read)", bad_out is None and n_chunks >= 20, "rtc", "bounded",
           detail=f"{n_chunks} inputs" if bad_out is None else f"input {bad_out[0]!r}: REPL printed {bad_out[1]!r}, the script prints {bad_out[2]!r}",
           witness={"input": bad_out[0]} if bad_out else None,
           replay={"confirmed": True, "input": bad_out[0], "observed": bad_out[1], "expected": bad_out[2]} if bad_out else None)
    # the same against an independent definition of `incomplete`: the nesting recogniser written from docs/syntax.rst
    # (hv/props/_c19_scan.py, no hy import).  Generated well-formed programs are cut where a user could press Enter; the text so far
    # is pushed to a real REPL, which must ask for more input exactly when the recogniser says a construct is still open; the command
    # compiler must not ask for more once the text is complete.
    from hv.props import _c19_scan as sc
    progs2 = sc.programs(chk.seed + 40, 300 if chk.tier == "quick" else 3000)
    step = 5 if chk.tier == "quick" else 2
    bad_open = bad_done = None
    n_open = n_done = k = 0
    whys = {}
    r = new_repl()
    cc = r.compile
    hook = sys.excepthook
    sys.excepthook = lambda *a: None
    try:
        with contextlib.redirect_stdout(io.StringIO()), contextlib.redirect_stderr(io.StringIO()):
            for p in progs2:
                for i in range(1, len(p) + 1):
                    k += 1
                    if k % step:
                        continue
                    if i < len(p) and p[i] not in sc.WS + sc.NON_IDENT and sc.classify(p[:i])[0] in ("ATOM", "ATOM_IN_OPEN"):
                        continue              # Enter in the middle of an atom makes a different (possibly malformed) atom: no claim
                    cls, why, top = sc.classify(p[:i] + "\n", want_start=True)
                    if cls == "OPEN":
                        acc = p[top:i]        # the unclosed top-level form alone (earlier complete forms would be evaluated first)
                        n_open += 1
                        whys[why] = whys.get(why, 0) + 1
                        r.resetbuffer()
                        more = r.push(acc) if "\n" not in acc else r.runsource(acc)
                        r.resetbuffer()
                        if more is not True and bad_open is None:
                            bad_open = (acc, why)
                    elif cls == "BETWEEN" and p[:i].strip():
                        n_done += 1
                        try:
                            out = cc(p[:i] + "\n", "<c40>", "exec")
                        except SyntaxError:
                            out = "error"
                        except Exception as e:  # noqa: BLE001
                            out = "error"
                        if out is None and bad_done is None:
                            bad_done = p[:i]
                    chk.case(("cut", k))
    finally:
        sys.excepthook = hook
    chk.ob("rtc/generated programs cut where Enter could be pressed: the REPL asks for more input whenever the nesting recogniser finds an "
           "unclosed construct", bad_open is None and n_open > 50, "rtc", "bounded",
           detail=f"{n_open} unclosed prefixes over {len(whys)} kinds of construct" if bad_open is None else
           f"REPL did not ask for more input after {bad_open[0]!r} (unclosed: {bad_open[1]})",
           witness={"input": bad_open[0]} if bad_open else None, replay={"confirmed": True, "input": bad_open[0]} if bad_open else None)
    chk.ob("rtc/generated programs cut between top-level forms: the command compiler does not ask for more input", bad_done is None and n_done > 50,
           "rtc", "bounded", detail=f"{n_done} complete prefixes" if bad_done is None else f"asked for more input after the complete text {bad_done!r}",
           witness={"input": bad_done} if bad_done else None, replay={"confirmed": True, "input": bad_done} if bad_done else None)
    chk.extra["incremental_unclosed_kinds"] = whys
    # random histories on a real REPL
    inputs = [("(+ 1 1)", "v"), ("None", "n"), ("(/ 1 0)", "f"), ("(undefined-name-xyz)", "f"), ('"s"', "v"), ("(setv q 5)", "n"), ("[1 2]", "v"), ("(+ 1", "i")]
    bad = None
    n = 40 if chk.tier == "quick" else 400
    hook = sys.excepthook
    sys.excepthook = lambda *a: None
    try:
        for k in range(n):
            r = new_repl()
            tags = []          # which input produced *1, *2, *3
            for step in range(rng.randrange(3, 9)):
                src, kind = rng.choice(inputs)
                before = (r.locals[S1], r.locals[S2], r.locals[S3])
                with contextlib.redirect_stdout(io.StringIO()), contextlib.redirect_stderr(io.StringIO()):
                    r.runsource(src)
                after = (r.locals[S1], r.locals[S2], r.locals[S3])
                chk.case((k, step))
                if kind in ("f", "i") and not all(x is y for x, y in zip(before, after)) and bad is None:
                    bad = (src, before, after)
        chk.ob("rtc/random histories on a real REPL: failing and incomplete inputs leave *1 *2 *3 untouched", bad is None, "rtc", "bounded",
               detail=str(bad))
    finally:
        sys.excepthook = hook


def run(chk):
    case_analysis(chk)
    command_compiler(chk)
    incremental(chk)
    chk.fn("hy/repl.py::REPL.runsource", "hy/repl.py::REPL.runcode", "hy/repl.py::REPL.showsyntaxerror/showtraceback/_error_wrap",
           "hy/repl.py::HyCommandCompiler.__call__")
    chk.trust("contract of code.InteractiveInterpreter.runsource (CPython 3.12 code.py)", "sys.excepthook")
    chk.canary("the duplicate detector flags (A, A, B)", len({1, 1, 2}) != 3)
    chk.sample({"case": "history/outcome=raises/output_fn=ok/previous input succeeded"})


def replay(path):
    from hv.replay import replay_file
    return replay_file(path)
