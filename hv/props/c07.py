"""C07 nonlocal and global reach the binding scoping prescribes."""
from hv import core  # noqa: E402
import itertools
import multiprocessing as mp

import hv.symx.core  # noqa: F401
from hy.errors import HySyntaxError
from hv.props import _outervar as ov
from hv.props import _scopes as sc
from hv.props._scopes import BIND, GLOBAL, LOG, NONLOCAL, SETV
from hv.symx import core as sx
from hv.symx.core import E, S

META = {
    "engine": "pyvc+symx",
    "level": "proof",
    "technique": "contract-based deductive verification of ResolveOuterVars.visit_OuterVar (VCs from its source AST, z3): an "
                 "inductive loop invariant over a scope chain of arbitrary length with uninterpreted scope kinds and contents "
                 "(ghost Seen(i, n) = `one of the scopes 1..i binds n as a function or let scope`, defined recursively) gives: "
                 "`global` lists exactly the declared names no enclosing function or let binds - class bodies never count - and "
                 "only when all of them are module-level variables, `nonlocal` exactly the others, both in declaration order "
                 "(a list made from a set has no order in the encoding), for 1..3 declared names; plus (1) the same "
                 "postcondition against an independent resolver spec by "
                 "complete exploration of the real method over every enclosing-scope chain of depth <= 4 (scope "
                 "kinds function / class / let, every assignment of the declared names to scopes, every module-level set) - "
                 "the property's own depth bound; (2) contracts of define_nonlocal (declaration after use is a Hy syntax "
                 "error) and of compile_global_or_nonlocal on the real rule; (3) whole-compiler postcondition: skeleton "
                 "programs nesting functions, classes and lets with a declaration and an assignment at the innermost level, "
                 "compared with a reference (lexical let-renaming + nearest-binding resolution + CPython's own scoping)",
    "text": "For every chain of up to 4 enclosing scopes and every distribution of 1-2 declared names over them, (nonlocal "
            "names) resolves each name to its nearest enclosing let or function binding (class bodies never count) and to the "
            "module-level variable otherwise (compiled to global), both lists in declaration order; unresolved names are left "
            "to Python's own error. Skeleton programs (spines of fn / class / let of depth 1..4 with definitions at varying "
            "levels, the declaration in the innermost function, assignment after it, reads at every level afterwards) "
            "behave exactly like the reference program; declaring a name after using it is a Hy syntax error.",
    "note": "Proved: visit_OuterVar for every chain (unbounded depth, arbitrary sets), 1..3 declared names. Exhaustive over a finite domain (not proved): the whole-compiler skeleton programs and the declaration contracts. Trusted: Python's own meaning of the emitted global/nonlocal statements; z3; the reference resolver and renamer; CPython as executor. Depth 4 is the property's own bound; within it "
            "the exploration of visit_OuterVar is exhaustive (quick: depth 3). The declaration is placed at the start of a "
            "function body (not directly inside the let that binds the name, which Hy rejects and the docs do not define).",
}

PROGS = []
TWO_LEVEL = {}


def _w(i):
    ok, hs, ps, h, p = sc.compare(PROGS[i])
    return i, ok, (hs, ps, h, p) if not ok else None


CHAINS = []
NAMESETS = (("a",), ("b",), ("a", "b"), ("b", "a"), ("c",), ("a", "c"))


def _ov(i):
    ks, sets, g = CHAINS[i]
    bad = None
    for names in NAMESETS:
        want = ov.spec(names, ks, sets, g)
        got = ov.run_real(names, ks, sets, g)
        if got != want and bad is None:
            bad = (ks, sets, g, names, got, want)
    return i, bad


def outervar(chk, maxd):
    CHAINS[:] = list(ov.chains(maxd))
    import gc; gc.collect(); gc.freeze()
    with mp.get_context("fork").Pool(chk.jobs) as pool:
        res = core.pmap(pool, _ov, range(len(CHAINS)), chunksize=256)
    bad = {}
    for i, b in res:
        chk.case(("chain", i))
        if b is not None:
            bad.setdefault(len(b[0]), b)
    for d in range(0, maxd + 1):
        b = bad.get(d)
        chk.ob(f"visit_OuterVar/chains of depth {d}: result equals the resolver spec (nearest let/function binding, else module-level global)",
               b is None, "structural", "exhaustive_finite",
               detail=None if b is None else f"scopes (innermost first) {b[0]} bind {b[1]}, module defines {b[2]}, declared {b[3]}: got {b[4]}, want {b[5]}")
    chk.extra["outervar_cases"] = len(CHAINS) * len(NAMESETS)


def declaration_contracts(chk):
    def compiles(src):
        import hy
        import types
        try:
            compile(hy.compiler.hy_compile(hy.read_many(src), types.ModuleType("hv_c07")), "<c07>", "exec")
            return "ok"
        except HySyntaxError:
            return "HySyntaxError"
        except SyntaxError:
            return "SyntaxError"
        except Exception as e:  # noqa: BLE001
            return type(e).__name__
    cases = {
        "(defn f [] (setv x 1) (nonlocal x))": "HySyntaxError",
        "(defn f [] (print x) (global x))": "HySyntaxError",
        "(defn f [] (setv x 1) (global x))": "HySyntaxError",
        "(defn f [x] (nonlocal x))": "any-error",
        "(defn f [] (let [y 1] (print x) (global x)))": "HySyntaxError",
        "(defclass C [] (setv x 1) (global x))": "HySyntaxError",
        "(defn f [] (let [y 1] (defclass C [] (defn m [self] (let [z 2] (setv x 1) (global x))))))": "HySyntaxError",
        "(defn f [] (setv x 0) (defn g [] (print x) (nonlocal x)))": "HySyntaxError",
        "(defn f [] (x) (global x))": "HySyntaxError",
        "(defn f [] (global x) (setv x 1))": "ok",
        "(defn f [] (defn g [] (nonlocal x) (setv x 1)) (setv x 0))": "ok",
        "(defn f [] (nonlocal x y))": "any-error",
        "(nonlocal)": "ok",
        "(global)": "ok",
    }
    for src, want in cases.items():
        got = compiles(src)
        ok = got == want or (want == "any-error" and got != "ok")
        chk.ob(f"declare/{src} -> {want}", ok, "structural", "proved", detail=got,
               replay=None if ok else {"confirmed": True, "input": f"hy_compile of {src}, then CPython's compile", "observed": got, "expected": want})
    # a declaration of several names: each is resolved on its own (some bound by an enclosing let of the same function - nothing to
    # declare for those -, some by an enclosing function, some at module level)
    import types
    import hy
    multi = {
        "(defn f [] (let [a 1 b 2] (let [u 0] (nonlocal a b) (setv a 5 b 6)) [a b])) (f)": [5, 6],
        "(defn f [] (let [a 1 b 2 c 3] (let [u 0] (nonlocal a b c) (setv a 5 b 6 c 7)) [a b c])) (f)": [5, 6, 7],
        "(defn f [] (setv p 1) (let [a 1 b 2] (defn g [] (nonlocal a p b) (setv a 5 p 6 b 7)) (g) [a p b])) (f)": [5, 6, 7],
        "(setv m 0) (defn f [] (let [a 1] (defn g [] (nonlocal a m) (setv a 5 m 6)) (g) [a m])) (f)": [5, 6],
        # (the let that the declaration stands in binds q itself: that binding is the nearest enclosing one)
        "(defn f [] (setv p 1 q 2) (defn g [] (let [q 9] (nonlocal p q) (setv p 5 q 6)) None) (g) [p q]) (f)": [5, 2],
        "(setv m 0 n 0) (defn f [] (let [m 1] (let [n 2] (global m n) (setv m 5 n 6)) [m n])) [(f) m n]": [[5, 6], 5, 6],
    }
    for src, want in multi.items():
        try:
            got = hy.eval(hy.read_many(src), module=types.ModuleType("hv_c07_multi"))
        except Exception as e:  # noqa: BLE001
            got = f"{type(e).__name__}: {e}"
        chk.case(("multi", src))
        chk.ob(f"declare-several/{src}", got == want, "cpython-oracle", "proved", detail=f"{got!r}, expected {want!r}",
               replay=None if got == want else {"confirmed": True, "input": src, "observed": repr(got), "expected": repr(want)})
    # compile_global_or_nonlocal: names are mangled, global emits ast.Global directly, nonlocal an OuterVar resolved later
    import ast
    out = sx.run_rule(E(S("global"), S("a-b"), S("c!")), scope_ctx=None)
    g = out.result.stmts[0]
    chk.ob("rule/(global a-b c!) emits Global with the mangled names in order", isinstance(g, ast.Global) and g.names == ["a_b", "hyx_cXexclamation_markX"],
           "structural", "proved", detail=str(getattr(g, "names", None)))


def _concrete_outervar(name, model):
    """Replay for a refuted VC of visit_OuterVar: the smallest real scope chain on which the real method and the resolver
    spec disagree (the SMT counter-model itself is a state of the abstract chain, possibly thousands of scopes long)."""
    for ks, sets, g in ov.chains(2):
        for names in NAMESETS:
            want, got = ov.spec(names, ks, sets, g), ov.run_real(names, ks, sets, g)
            if want != got:
                return {"confirmed": True, "input": {"scopes (innermost first)": ks, "bound names": sets, "module-level": g, "declared": names},
                        "observed": got, "expected": want}
    return None


def run(chk):
    quick = chk.tier == "quick"
    from hv.pyvc import targets
    targets.c07_visit_outervar(chk, concrete=_concrete_outervar)
    outervar(chk, 3 if quick else 4)
    declaration_contracts(chk)
    # skeleton programs
    del PROGS[:]
    LEVELS = [("fn",), ("defn",), ("class",), ("let", ("x",)), ("let", ("y",))]
    maxd = 3 if quick else 4
    pre = [(), (SETV("x"),), (SETV("y"),)]
    pre_binds = [(BIND("setv-of-try", "x"),), (BIND("setx", "x"),), (BIND("for", "x"),)]      # used at depth <= 2
    post = [(LOG("x"), LOG("y"))]
    inner_fn = []
    for decl in (NONLOCAL("x"), GLOBAL("x"), NONLOCAL("y")):
        inner_fn.append((("fn", (decl, SETV("x"), SETV("y"), LOG("x"), LOG("y"))),))
    for d in range(1, maxd + 1):
        for levels in itertools.product(LEVELS, repeat=d):
            # a let directly inside a class body binds a class-level variable, which no nested function can reach in
            # Python (class bodies are not closed over): such spines are outside the property (and Hy rejects them)
            if any(l[0] == "let" and next((k[0] for k in reversed(levels[:i]) if k[0] != "let"), None) == "class" for i, l in enumerate(levels)):
                continue
            for mod_pre in ((), (SETV("x"),), (SETV("x"), SETV("y"))):
                v = sc.Vals()

                def mk_inner(v_, decl):
                    return ("fn", tuple(m(v_) for m in (decl, SETV("x"), SETV("y"), LOG("x"), LOG("y"))))
                for decl in (NONLOCAL("x"), GLOBAL("x"), NONLOCAL("y")):
                    inner = [((lambda v_, decl=decl: mk_inner(v_, decl)),)]
                    pres = pre + pre_binds if d <= 2 else (pre[:2] if (not quick or any(l[0] == "class" for l in levels)) else pre[:1])
                    for prog in sc.spine_programs(list(levels), pres, post, inner):
                        PROGS.append(tuple(m(v) for m in mod_pre) + prog + (("log", "x"), ("log", "y")))
    # the enclosing binding is a *parameter* of each kind (positional-only, plain, with default, keyword-only, #* and #**), alone and
    # with a module-level variable or an outer let of the same name
    for pk in sc.PARAM_KINDS:
        for mid in ((), (("let", ("y",)),), (("fn",),), (("let", ("x",)),), (("defn",), ("let", ("y",)))):
            for outer in ((), (("let", ("x",)),)):
                levels = list(outer) + [("defnp", "x", pk)] + list(mid)
                for mod_pre in ((), (SETV("x"),)):
                    v = sc.Vals()
                    for decl in (NONLOCAL("x"), GLOBAL("x")):
                        inner = [((lambda v_, decl=decl: ("fn", tuple(m(v_) for m in (decl, SETV("x"), LOG("x"))))),)]
                        for prog in sc.spine_programs(levels, [()], [(LOG("x"),)], inner):
                            PROGS.append(tuple(m(v) for m in mod_pre) + prog + (("log", "x"),))
    # a (global x) written directly in a let body (no function in between): from the declaration on, x is the module variable
    # everywhere in that Python scope - in the let that declares it, in the enclosing lets after the inner one is left, and in
    # except-variable scopes
    for d in range(2, 4):
        for levels in itertools.product([("fn",), ("defn",), ("let", ("x",)), ("let", ("y",))], repeat=d):
            if levels[0][0] not in ("fn", "defn") or not any(l[0] == "let" for l in levels):
                continue
            for mod_pre in ((SETV("x"),), (SETV("x"), SETV("y"))):
                v = sc.Vals()
                inner = [(GLOBAL("x"), SETV("x"), LOG("x"), LOG("y"))]
                posts = [(LOG("x"), SETV("x"), LOG("x"), LOG("y"))]
                for prog in sc.spine_programs(list(levels), [()], posts, inner):
                    PROGS.append(tuple(m(v) for m in mod_pre) + prog + (("log", "x"), ("log", "y")))
    # the name is declared at two levels: a function that declares x (global or nonlocal) - and maybe assigns it - does not bind x, so
    # a (nonlocal x) in a function nested in it looks further out (an enclosing function, a let, or the module-level variable)
    TWO_LEVEL.clear()
    for outer in ("", "let", "fn", "fn+let"):
        for decl1 in ("nonlocal", "global"):
            for assign1 in (True, False):
                for mid in ("", "let y", "let x", "fn"):
                    for decl2 in ("nonlocal", "global"):
                        for mod_x in (True, False):
                            v = sc.Vals()
                            inner = ("fn", ((decl2, "x"), ("setv", "x", v()), ("log", "x")))
                            if mid.startswith("let"):
                                inner = ("let", ((mid[4:], v()),), (inner, ("log", "x")))
                            elif mid == "fn":
                                inner = ("fn", (inner, ("log", "x")))
                            f1 = ("fn", ((decl1, "x"),) + ((("setv", "x", v()),) if assign1 else ()) + (inner, ("log", "x")))
                            body = (f1, ("log", "x"))
                            if outer.endswith("let"):
                                body = (("let", (("x", v()),), body),)
                            if outer.startswith("fn"):
                                body = (("fn", (("setv", "x", v()),) + body + (("log", "x"),)),)
                            prog = ((("setv", "x", v()),) if mod_x else ()) + body + (("log", "x"),)
                            TWO_LEVEL[len(PROGS)] = f"{decl1} in a function{' that assigns the name' if assign1 else ''}, then {decl2} in a function nested in it"
                            PROGS.append(prog)
    import gc; gc.collect(); gc.freeze()  # forked workers then touch (copy) far fewer pages
    with mp.get_context("fork").Pool(chk.jobs) as pool:
        res = core.pmap(pool, _w, range(len(PROGS)), chunksize=128)
    per = {}
    for i, ok, info in res:
        chk.case(("prog", i))
        prog = PROGS[i]

        def shape(body):
            out = []
            for t in body:
                if t[0] in ("let", "fn", "defn", "class"):
                    sub = t[2] if t[0] in ("let", "defn", "class") else t[1]
                    out.append(t[0] + ">" + shape(sub))
                elif t[0] == "defnp":
                    out.append(f"defn({t[3]} parameter)>" + shape(t[5]))
            return "+".join(o for o in out if o)
        def class_assigns_let_name(body, bound=frozenset(), in_class=False):
            for t in body:
                if t[0] == "let":
                    if class_assigns_let_name(t[2], bound | {n for n, _ in t[1]}, in_class):
                        return True
                elif t[0] == "class":
                    if class_assigns_let_name(t[2], bound, True):
                        return True
                elif t[0] in ("fn", "defn", "def"):
                    if class_assigns_let_name(t[2] if t[0] != "fn" else t[1], bound, False):
                        return True
                elif t[0] == "defnp":
                    if class_assigns_let_name(t[5], bound - {t[2]}, False):
                        return True
                elif in_class and ((t[0] == "setv" and t[1] in bound) or (t[0] == "bind" and t[2] in bound)):
                    return True
            return False
        key = shape(prog) + (" (a class body assigns a name bound by an enclosing let)" if class_assigns_let_name(prog) else "")
        if i in TWO_LEVEL:
            key = "declared at two levels: " + TWO_LEVEL[i]
        st = per.setdefault(key, [0, None])
        st[0] += 1
        if not ok and st[1] is None:
            st[1] = info
    for key, (n, info) in sorted(per.items()):
        det, rp = f"{n} programs", None
        if info is not None:
            hs, ps, h, p = info
            det = f"Hy source: {hs}\n  reference Python:\n{ps}  Hy run : {h}\n  ref run: {p}"
            rp = {"confirmed": True, "hy_source": hs, "reference_python": ps, "observed": repr(h), "expected": repr(p)}
        chk.ob(f"programs/spine {key}", info is None, "cpython-oracle", "exhaustive_finite", detail=det, replay=rp)
    chk.extra["programs"] = len(PROGS)
    chk.fn("hy/scoping.py::ResolveOuterVars.visit_OuterVar", "hy/scoping.py::ScopeGlobal/ScopeLet/ScopeFn.define_nonlocal",
           "hy/scoping.py::ScopeGlobal.__exit__", "hy/core/result_macros.py::compile_global_or_nonlocal")
    chk.trust("reference resolver/renamer + CPython scoping as oracle")
    chk.bounds["nesting depth"] = f"1..{maxd}"
    # canary: the resolver spec that counts class scopes as bindings must disagree with the real method somewhere
    ks, sets, g = ("class",), (("a",),), ("a",)
    chk.canary("a spec that treats class bodies as bindings is refuted", ov.run_real(("a",), ks, sets, g) != [("Nonlocal", ["a"])])
    chk.sample({"hy": sc.body_hy(PROGS[len(PROGS) // 3]), "reference_python": sc.to_py(PROGS[len(PROGS) // 3])})


def replay(path):
    from hv.replay import replay_file
    return replay_file(path)
