"""C41 the hy command runs programs the same way from -c, a file, stdin and -m.

Part 1 (exhaustive over a finite vocabulary): a specification `cli(argv, tty)` written from docs/cli.rst, the usage
line and CPython's command-line conventions is compared with the REAL hy.cmdline.cmdline_handler, called in-process for
every argument vector up to a length bound, with the runners (run_command, runhy.run_path, runpy.run_module, REPL),
sys.stdin, sys.exit and _remove_python_envs replaced by recorders.
Part 2 (bounded): generated short programs are run by the installed `hy` in subprocesses in all four modes with
option-like trailing arguments; stdout, exit status and sys.argv are compared between the modes and with the docs.
"""
import hv.symx.core  # noqa: F401  (puts /repo on sys.path, pre-imports hy)

import inspect
import io
import itertools
import multiprocessing
import os
import random
import shutil
import subprocess
import sys
import tempfile
import time
import types
from concurrent.futures import ThreadPoolExecutor

import hy
import hy.cmdline as hcl
import hy.importer as himp
from hy.errors import HyLanguageError

from hv import core

META = {
    "engine": "rtc+ex",
    "level": "other",
    "technique": "run-time contract on the real cmdline_handler: a specification function cli(argv, stdin-is-a-tty) written "
                 "from docs/cli.rst, the usage line and CPython's command-line conventions (where options end, what "
                 "sys.argv and sys.path[0] each mode sets, what is passed through untouched) is compared with the real "
                 "function for every argument vector of length <= 4 (quick: <= 3) over a 15-word vocabulary x {tty, no "
                 "tty}, plus an extended vocabulary of clustered/attached/long forms, with the program runners replaced "
                 "by recorders; plus a subprocess differential of the installed `hy` in its four modes on generated "
                 "programs with option-like trailing arguments",
    "text": "Bounded stand-in. For every enumerated command line the real cmdline_handler chooses the mode, the program "
            "argument (command string, mangled module name, absolute script path, standard input), sys.argv, sys.path[0], "
            "the option flags it honours and its return value exactly as the specification says, and reports unknown "
            "options and missing option arguments without running anything; options after `-c CMD`, `-m MOD`, `--`, the "
            "script name or `-` reach the program unchanged. For generated programs the four modes print the same "
            "stdout, exit with the same status, and see sys.argv[0] == '-c' / the script name as given / '-' / the "
            "module's file, followed by exactly the trailing arguments.",
    "note": "Level other: the argument vectors are bounded in length and vocabulary and the programs are sampled. The "
            "runners are cut at their call boundary in part 1 (what they are called with, not what they do); part 2 runs "
            "the real runners end to end. Trusted: hy.mangle (C32), CPython's runpy.run_module(alter_sys=True) replacing "
            "sys.argv[0] with the module's file, the recorders. Known findings: `hy FILE` cannot start on CPython "
            "3.12.0-3.12.x whose runpy still calls _get_code_from_file(run_name, fname); `hy` reading the program from "
            "standard input without `-` leaves sys.argv empty; `hy -i -m MOD` raises a bare ValueError.",
}

# ------------------------------------------------------------------------------------------------------------------
# vocabulary
# ------------------------------------------------------------------------------------------------------------------
VOCAB = ["-c", "-m", "-i", "-B", "-E", "--spy", "-ic", "--repl-output-fn=x", "--", "-", "f.hy", "-x", "arg", "-h", "-v"]
# clustered flags, attached option arguments, long spellings, detached long option argument, unknown long option
EXT = ["-Bi", "-iB", "-cX", "-mM", "-icX", "--repl-output-fn", "--help", "--version", "--nope", "-Bx"]

STDIN_TEXT = "(print \"hv-c41 program from standard input\")\n"
RC_COMMAND = 7       # what the run_command recorder returns: the handler must hand it on as the exit status
RC_REPL = 5          # what REPL.run returns
SENTINEL_ARGV = ["<hv-c41 untouched argv>", "<x>"]


def file_text(word):
    return f"; hv-c41 script file {word!r}\n(print \"hv-c41 {len(word)}\")\n"


# ------------------------------------------------------------------------------------------------------------------
# the specification (docs/cli.rst + `hy --help` usage + CPython's conventions; independent of cmdline.py's loop)
# ------------------------------------------------------------------------------------------------------------------
SHORT_FLAGS = {"B": "B", "E": "E", "i": "i", "h": "help", "v": "version", "u": "unbuffered"}
SHORT_VALUED = {"c": "c", "m": "m"}                 # both end the option list
LONG_FLAGS = {"--spy": "spy", "--help": "help", "--version": "version", "--unbuffered": "unbuffered"}
LONG_VALUED = {"--repl-output-fn": "outfn"}


def cli(argv, tty, terminate_at_c=True):
    """What `hy ARGV...` must do.  Returns a dict:
      kind 'error' (opt)                                   a usage error: nothing is run
      kind 'help' | 'version'                              print and return 0: nothing is run
      kind 'run': mode c|m|file|stdin|stdin-implicit|repl, prog, args (passed through), flags, outfn
    `terminate_at_c=False` is the deliberately wrong variant used by the must-fail canary."""
    i, n = 0, len(argv)
    flags, outfn, mode, prog = set(), None, None, None
    while i < n and mode is None:
        w = argv[i]
        if w == "--":
            i += 1
            break
        if w == "-" or not w.startswith("-"):
            break                                        # first non-option argument, or `-`
        i += 1
        if w.startswith("--"):
            name, _, val = w.partition("=")
            if name in LONG_FLAGS:
                flags.add(LONG_FLAGS[name])
            elif name in LONG_VALUED:
                if not val:
                    if i >= n:
                        return {"kind": "error", "opt": name}
                    val = argv[i]
                    i += 1
                outfn = val
            else:
                return {"kind": "error", "opt": name}
            continue
        j = 1
        while j < len(w):
            ch = w[j]
            j += 1
            if ch in SHORT_FLAGS:
                flags.add(SHORT_FLAGS[ch])
            elif ch in SHORT_VALUED:
                val = w[j:]
                if not val:
                    if i >= n:
                        return {"kind": "error", "opt": "-" + ch}
                    val = argv[i]
                    i += 1
                if terminate_at_c or ch != "c":
                    mode, prog = ch, val
                else:
                    flags.add("wrong-c")
                    prog = val
                break
            else:
                return {"kind": "error", "opt": "-" + ch}
    rest = list(argv[i:])
    if "wrong-c" in flags:
        mode = "c"
        flags.discard("wrong-c")
    if "help" in flags:
        return {"kind": "help"}
    if "version" in flags:
        return {"kind": "version"}
    if mode is None:
        if rest:
            mode, prog, rest = ("stdin", None, rest[1:]) if rest[0] == "-" else ("file", rest[0], rest[1:])
        else:
            mode = "repl" if tty else "stdin-implicit"
    return {"kind": "run", "mode": mode, "prog": prog, "args": rest, "flags": flags, "outfn": outfn,
            "interactive": "i" in flags}


def spec_argv(sp):
    """sys.argv the program must see (None: not specified / placeholder handled separately)."""
    m = sp["mode"]
    if m == "c":
        return ["-c"] + sp["args"]
    if m == "file":
        return [sp["prog"]] + sp["args"]
    if m == "stdin":
        return ["-"] + sp["args"]
    if m == "stdin-implicit":
        return [""]                  # CPython: "If no script name was passed to the Python interpreter, argv[0] is the empty string"
    return None


def spec_path0(sp, cwd):
    m = sp["mode"]
    if m == "file":
        return os.path.realpath(os.path.dirname(os.path.join(cwd, sp["prog"])))
    if m == "m":
        return os.path.realpath(cwd)
    return ""                        # -c, stdin, REPL: the empty string hy_main put there stays


def label(sp):
    if sp["kind"] != "run":
        return sp["kind"]
    return sp["mode"] + ("+i" if sp["interactive"] and sp["mode"] != "repl" else "")


# ------------------------------------------------------------------------------------------------------------------
# recorders around the real cmdline_handler
# ------------------------------------------------------------------------------------------------------------------
class _Exit(BaseException):
    def __init__(self, code):
        self.code = code


class _FakeStdin:
    def __init__(self, tty):
        self.tty, self.reads = tty, 0

    def isatty(self):
        return self.tty

    def read(self, *a):
        self.reads += 1
        return STDIN_TEXT


class Harness:
    """Installs the recorders once (context manager), runs many argument vectors, restores everything."""

    def __init__(self, cwd, run_path_effect=None):
        self.cwd = cwd
        self.calls = []
        self.run_path_effect = run_path_effect

    def _where(self):
        return {"argv": list(sys.argv) if isinstance(sys.argv, list) else sys.argv, "path0": sys.path[0] if sys.path else None}

    def __enter__(self):
        h = self
        self.saved = dict(
            run_command=hcl.run_command, REPL=hcl.REPL, remove=hcl._remove_python_envs,
            run_path=hcl.runhy.run_path, run_module=hcl.runpy.run_module,
            stdin=sys.stdin, stdout=sys.stdout, stderr=sys.stderr, exit=sys.exit, argv=sys.argv, path=sys.path,
            executable=sys.executable, dwb=sys.dont_write_bytecode, cwd=os.getcwd(),
            hy_executable=getattr(hy, "executable", None), hy_sys_executable=getattr(hy, "sys_executable", None),
        )

        def run_command(source, filename=None):
            h.calls.append(("run_command", dict(source=source, filename=filename, **h._where())))
            return RC_COMMAND

        def run_path(path_name, init_globals=None, run_name=None):
            h.calls.append(("run_path", dict(path=path_name, run_name=run_name, init_globals=init_globals, **h._where())))
            if h.run_path_effect is not None:
                raise h.run_path_effect(path_name)
            return {}

        def run_module(mod_name, init_globals=None, run_name=None, alter_sys=False):
            h.calls.append(("run_module", dict(name=mod_name, run_name=run_name, alter_sys=alter_sys, **h._where())))
            return {}

        class REPL:
            def __init__(self, spy=None, output_fn=None, **kw):
                self.compile = types.SimpleNamespace(compiler=types.SimpleNamespace(skip_next_shebang=False))
                h.calls.append(("REPL", dict(spy=spy, output_fn=output_fn, extra=sorted(kw))))

            def runsource(self, source, filename="<input>", symbol="single"):
                h.calls.append(("runsource", dict(source=source, filename=filename,
                                                  skip_shebang=self.compile.compiler.skip_next_shebang, **h._where())))
                return False

            def run(self):
                h.calls.append(("repl.run", h._where()))
                return RC_REPL

        def remove():
            h.calls.append(("remove_envs", {}))

        def fake_exit(code=None):
            raise _Exit(code)

        hcl.run_command, hcl.REPL, hcl._remove_python_envs = run_command, REPL, remove
        hcl.runhy.run_path, hcl.runpy.run_module = run_path, run_module
        sys.exit = fake_exit
        os.chdir(self.cwd)
        return self

    def __exit__(self, *exc):
        s = self.saved
        hcl.run_command, hcl.REPL, hcl._remove_python_envs = s["run_command"], s["REPL"], s["remove"]
        hcl.runhy.run_path, hcl.runpy.run_module = s["run_path"], s["run_module"]
        sys.stdin, sys.stdout, sys.stderr, sys.exit = s["stdin"], s["stdout"], s["stderr"], s["exit"]
        sys.argv, sys.path, sys.executable, sys.dont_write_bytecode = s["argv"], s["path"], s["executable"], s["dwb"]
        hy.executable, hy.sys_executable = s["hy_executable"], s["hy_sys_executable"]
        os.chdir(s["cwd"])
        return False

    def observe(self, argv, tty):
        s = self.saved
        self.calls = []
        out, err = io.StringIO(), io.StringIO()
        stdin = _FakeStdin(tty)
        sys.stdin, sys.stdout, sys.stderr = stdin, out, err
        sys.argv = list(SENTINEL_ARGV)
        sys.path = [""] + list(s["path"])              # hy_main: sys.path.insert(0, "")
        sys.dont_write_bytecode = False
        try:
            try:
                outcome = ("return", hcl.cmdline_handler(["hy"] + list(argv)))
            except hcl.HyArgError as e:
                outcome = ("argerror", str(e))
            except _Exit as e:
                outcome = ("exit", e.code)
            except Exception as e:
                outcome = ("raise", f"{type(e).__name__}: {e}")
            return {"outcome": outcome, "calls": self.calls, "B": sys.dont_write_bytecode is True,
                    "stdout": out.getvalue(), "stderr": err.getvalue(), "stdin_reads": stdin.reads,
                    "argv_after": list(sys.argv) if isinstance(sys.argv, list) else sys.argv}
        finally:
            sys.stdin, sys.stdout, sys.stderr = s["stdin"], s["stdout"], s["stderr"]
            sys.argv, sys.path, sys.executable, sys.dont_write_bytecode = s["argv"], s["path"], s["executable"], s["dwb"]


# ------------------------------------------------------------------------------------------------------------------
# contract clauses: (clause, ok, detail) per case
# ------------------------------------------------------------------------------------------------------------------
RUNNERS = ("run_command", "run_path", "run_module", "REPL", "runsource", "repl.run")


def compare(sp, ob, cwd):
    """Compare one observation with the specification; yields (clause, ok, detail)."""
    calls = [c for c in ob["calls"] if c[0] in RUNNERS]
    kinds = [c[0] for c in calls]
    info = {k: v for k, v in calls}                      # last call of each kind (each occurs at most once when dispatch holds)
    out = []
    if sp["kind"] == "error":
        ok = ob["outcome"][0] == "argerror" and sp["opt"] in ob["outcome"][1] and not kinds
        return [("usage-error", ok, f"outcome={ob['outcome']} runners={kinds}; expected a usage error naming {sp['opt']} and nothing run")]
    if sp["kind"] == "help":
        ok = ob["outcome"] == ("return", 0) and not kinds and hcl.USAGE in ob["stdout"]
        return [("help", ok, f"outcome={ob['outcome']} runners={kinds} stdout={ob['stdout'][:80]!r}")]
    if sp["kind"] == "version":
        ok = ob["outcome"] == ("return", 0) and not kinds and hy.__version__ in ob["stdout"] and hcl.USAGE not in ob["stdout"]
        return [("version", ok, f"outcome={ob['outcome']} runners={kinds} stdout={ob['stdout'][:80]!r}")]

    m, inter = sp["mode"], sp["interactive"]
    if m == "m" and inter:
        ok = kinds == ["REPL", "run_module", "repl.run"] or kinds == ["run_module", "REPL", "repl.run"]
        return [("supported", ok, f"outcome={ob['outcome']} runners={kinds}; CPython runs the module and then goes interactive")]
    want_kinds = {
        ("c", False): ["run_command"], ("c", True): ["REPL", "runsource", "repl.run"],
        ("m", False): ["run_module"],
        ("file", False): ["run_path"], ("file", True): ["REPL", "runsource", "repl.run"],
        ("stdin", False): ["run_command"], ("stdin", True): ["REPL", "repl.run"],
        ("stdin-implicit", False): ["run_command"], ("stdin-implicit", True): ["REPL", "repl.run"],
        ("repl", False): ["REPL", "repl.run"], ("repl", True): ["REPL", "repl.run"],
    }[(m, inter)]
    ok = kinds == want_kinds and ob["outcome"][0] == "return"
    out.append(("dispatch", ok, f"runners called {kinds} outcome={ob['outcome']}; expected {want_kinds}"))
    if not ok:
        return out

    # -- the program argument -------------------------------------------------------------------------------------
    if m == "c":
        c = info["runsource" if inter else "run_command"]
        okp = c["source"] == sp["prog"] and c["filename"] == "<string>"
        det = f"source={c['source']!r} filename={c['filename']!r}; expected {sp['prog']!r}, '<string>'"
    elif m == "m":
        c = info["run_module"]
        okp = c["name"] == hy.mangle(sp["prog"]) and c["run_name"] == "__main__" and c["alter_sys"] is True
        det = f"run_module({c['name']!r}, run_name={c['run_name']!r}, alter_sys={c['alter_sys']!r}); expected {hy.mangle(sp['prog'])!r}, '__main__', True"
    elif m == "file":
        want_path = os.path.abspath(os.path.join(cwd, sp["prog"]))
        if inter:
            c = info["runsource"]
            okp = (c["source"] == file_text(sp["prog"]) and os.path.abspath(c["filename"]) == want_path
                   and os.path.isabs(c["filename"]) and c["skip_shebang"] is True)
            det = f"runsource({c['source'][:40]!r}, filename={c['filename']!r}, skip_shebang={c['skip_shebang']}); expected the text of {want_path}"
        else:
            c = info["run_path"]
            okp = (isinstance(c["path"], str) and os.path.isabs(c["path"]) and os.path.abspath(c["path"]) == want_path
                   and c["run_name"] == "__main__" and c["init_globals"] is None)
            det = f"run_path({c['path']!r}, run_name={c['run_name']!r}); expected {want_path!r}, '__main__'"
    elif m in ("stdin", "stdin-implicit"):
        if inter:
            okp = ob["stdin_reads"] == 0           # the REPL itself reads standard input
            det = f"stdin.read() called {ob['stdin_reads']} times before the REPL"
        else:
            c = info["run_command"]
            okp = c["source"] == STDIN_TEXT and c["filename"] == "<stdin>" and ob["stdin_reads"] == 1
            det = f"source={c['source']!r} filename={c['filename']!r} reads={ob['stdin_reads']}"
    else:
        okp, det = ob["stdin_reads"] == 0, f"stdin.read() called {ob['stdin_reads']} times"
    out.append(("program", okp, det))

    # -- sys.argv and sys.path[0] at the moment the program starts ----------------------------------------------
    first = next((info[k] for k in ("run_command", "run_path", "run_module", "runsource", "repl.run") if k in info), None)
    seen = first["argv"]
    if m == "m":
        oka = isinstance(seen, list) and len(seen) == 1 + len(sp["args"]) and seen[1:] == sp["args"]
        det = f"sys.argv={seen!r}; expected [<slot that runpy overwrites with the module's file>] + {sp['args']!r}"
    elif m == "repl":
        oka, det = True, "not specified for the bare REPL"
    elif m == "file":
        # runpy.run_path(path) puts `path` into sys.argv[0] while the script runs (callee contract, trusted), so the slot
        # must exist and the program sees [path given to run_path] + sys.argv[1:].  Python's documentation of sys.argv:
        # "argv[0] is the script name (it is operating system dependent whether this is a full pathname or not)": the
        # name as given and its absolute path are both accepted.
        eff = ([info["run_path"]["path"]] + seen[1:]) if (not inter and isinstance(seen, list) and seen) else seen
        oka = (isinstance(eff, list) and len(eff) == 1 + len(sp["args"]) and eff[1:] == sp["args"] and isinstance(eff[0], str)
               and os.path.abspath(os.path.join(cwd, eff[0])) == os.path.abspath(os.path.join(cwd, sp["prog"])))
        det = f"sys.argv={seen!r}, seen by the script as {eff!r}; expected [{sp['prog']!r} or its absolute path] + {sp['args']!r}"
    else:
        want = spec_argv(sp)
        oka = seen == want
        det = f"sys.argv={seen!r}; expected {want!r}"
    out.append(("argv", oka, det))
    wantp = spec_path0(sp, cwd)
    out.append(("path0", first["path0"] == wantp, f"sys.path[0]={first['path0']!r}; expected {wantp!r}"))

    # -- options that were read as Hy options --------------------------------------------------------------------
    nE = sum(1 for c in ob["calls"] if c[0] == "remove_envs")
    oko = ob["B"] == ("B" in sp["flags"]) and (nE > 0) == ("E" in sp["flags"])
    det = f"dont_write_bytecode={ob['B']} remove_python_envs calls={nE}; flags per spec {sorted(sp['flags'])}"
    if "REPL" in info:
        r = info["REPL"]
        oko = oko and bool(r["spy"]) == ("spy" in sp["flags"]) and r["output_fn"] == sp["outfn"] and not r["extra"]
        det += f"; REPL(spy={r['spy']!r}, output_fn={r['output_fn']!r}) expected spy={'spy' in sp['flags']} output_fn={sp['outfn']!r}"
    out.append(("options", oko, det))

    # -- exit status ---------------------------------------------------------------------------------------------
    want_rc = RC_REPL if "repl.run" in info else RC_COMMAND if "run_command" in info else 0
    out.append(("status", ob["outcome"] == ("return", want_rc), f"returned {ob['outcome']}; expected the runner's status {want_rc}"))
    return out


# ------------------------------------------------------------------------------------------------------------------
# enumeration (module-level worker for the fork pool)
# ------------------------------------------------------------------------------------------------------------------
_W = {}


def gen_argvs(words, maxlen, first=None, must_contain=None):
    for n in range(0, maxlen + 1):
        if first is not None and n == 0:
            continue
        pools = [words] * n if first is None else [[first]] + [words] * (n - 1)
        for t in itertools.product(*pools):
            if must_contain is None or any(w in must_contain for w in t):
                yield t


def _enumerate(job):
    """job = (tag, words, maxlen, first word or None, must_contain or None, cwd).  Returns aggregated clause results."""
    tag, words, maxlen, first, must, cwd = job
    agg = {}          # (clause, label) -> [n, nfail, first failing detail]
    canary = {"c-does-not-terminate": 0, "m-without-argv0-slot": 0}
    ncases = 0
    with Harness(cwd) as h:
        for argv in gen_argvs(words, maxlen, first, must):
            for tty in (False, True):
                sp = cli(list(argv), tty)
                ob = h.observe(argv, tty)
                lab = label(sp)
                for clause, ok, det in compare(sp, ob, cwd):
                    a = agg.setdefault((clause, lab), [0, 0, None])
                    a[0] += 1
                    if not ok:
                        a[1] += 1
                        if a[2] is None:
                            a[2] = {"argv": list(argv), "stdin_is_tty": tty, "detail": det}
                # must-fail canaries: a deliberately wrong clause evaluated on the same observation must get a different
                # verdict than the right clause somewhere (so a regression of the real code towards the wrong clause is
                # still reported as a violation of the right clause, not as a void run)
                wrong = cli(list(argv), tty, terminate_at_c=False)
                if wrong != sp:
                    v_wrong = all(ok for _, ok, _ in compare(wrong, ob, cwd))
                    v_right = all(ok for _, ok, _ in compare(sp, ob, cwd))
                    if v_wrong != v_right:
                        canary["c-does-not-terminate"] += 1
                if sp["kind"] == "run" and sp["mode"] == "m" and not sp["interactive"] and sp["args"]:
                    seen = next((c[1]["argv"] for c in ob["calls"] if c[0] == "run_module"), None)
                    if isinstance(seen, list):
                        v_wrong = seen == sp["args"]
                        v_right = len(seen) == 1 + len(sp["args"]) and seen[1:] == sp["args"]
                        if v_wrong != v_right:
                            canary["m-without-argv0-slot"] += 1
                ncases += 1
    return agg, canary, ncases


def _merge(total, part):
    for k, (n, nf, d) in part.items():
        a = total.setdefault(k, [0, 0, None])
        a[0] += n
        a[1] += nf
        if a[2] is None:
            a[2] = d


# ------------------------------------------------------------------------------------------------------------------
# part 2: subprocess differential
# ------------------------------------------------------------------------------------------------------------------
ARG_POOL = ["a", "-i", "-c", "-m", "--spy", "-h", "--help", "-v", "--version", "--", "-", "-x", "--repl-output-fn=x",
            "-E", "-B", "-ic", "with space", "ünï", "-u", "--unknown=1", "f.hy", "(print 1)"]
PREFIXES = [[], ["-B"], ["--spy"], ["-B", "-E"], ["--repl-output-fn=repr"]]
ENDINGS = ("ok", "exit", "raise", "stderr", "hy-error", "raise-file-not-found", "raise-os-error", "exit-with-a-message", "hy-error-at-run-time")


def gen_program(rng, k, ending):
    """A short Hy program printing results, __name__, sys.argv[0] and the remaining arguments (one per line, ascii())."""
    a, b, c = rng.randint(-50, 50), rng.randint(1, 9), rng.randint(0, 5)
    exprs = [
        f"(+ {a} {b})", f"(* {b} (- {a} {c}))", f"(.upper \"w{k}-{c}\")", f"(lfor x (range {c + 1}) (* x {b}))",
        f"(if (> {a} 0) \"pos\" \"neg\")", f"(len sys.argv)", f"(.join \",\" (cut sys.argv 1 None))",
        f"(do (setv v{k} {a}) (+ v{k} 1))", f"(get {{\"k\" {b}}} \"k\")", f"(sum (gfor x [1 2 {b}] x))",
    ]
    rng.shuffle(exprs)
    lines = ["(import sys)", f"(print \"NONCE\" \"hv-c41-{k}-{a}\")"]
    if rng.random() < 0.5:
        lines.append(f"(defmacro m{k} [x] `(+ ~x {b}))")
        exprs.insert(0, f"(m{k} {a})")
    if rng.random() < 0.5:
        lines.append(f"(defn f{k} [x [y {c}]] (* (+ x y) {b}))")
        exprs.insert(0, f"(f{k} {a})")
    for n, e in enumerate(exprs[: rng.randint(2, 5)]):
        lines.append(f"(print \"R{n}\" {e})")
    lines += ["(print \"NAME\" __name__)", "(print \"ARGV0\" (ascii (get sys.argv 0)))",
              "(for [x (cut sys.argv 1 None)] (print \"ARG\" (ascii x)))"]
    if ending == "exit":
        lines.append(f"(sys.exit {rng.choice([0, 1, 2, 3, 42])})")
    elif ending == "raise":
        lines.append(f"(raise (ValueError \"boom {k}\"))")
    elif ending == "raise-file-not-found":
        lines.append(f"(open \"/nonexistent-hv-c41/missing-{k}\")")            # the program, not hy, fails to open a file
    elif ending == "raise-os-error":
        lines.append(f"(raise (PermissionError 13 \"denied {k}\" \"some-file\"))")
    elif ending == "exit-with-a-message":
        lines.append(f"(sys.exit \"bye {k}\")")
    elif ending == "hy-error-at-run-time":
        lines.append("(hy.eval '(fn))")                                          # a HyLanguageError raised while the program runs
    elif ending == "stderr":
        lines.append("(print \"to stderr\" :file sys.stderr)")
    elif ending == "hy-error":
        lines.append("(print \"unreached\" (fn))")         # a compile-time HyLanguageError: nothing of the program runs
    lines.append("")
    return "\n".join(lines)


def _run(job):
    cmd, stdin_text, env, cwd = job
    try:
        p = subprocess.run(cmd, input=stdin_text, capture_output=True, text=True, env=env, cwd=cwd, timeout=120,
                           encoding="utf-8", errors="backslashreplace")
        return p.returncode, p.stdout, p.stderr
    except subprocess.TimeoutExpired:
        return "timeout", "", ""


def split_out(stdout):
    """-> (lines other than ARGV0/ARG, argv0, args)"""
    rest, argv0, args = [], None, []
    for l in stdout.splitlines():
        if l.startswith("ARGV0 "):
            argv0 = l[6:]
        elif l.startswith("ARG "):
            args.append(l[4:])
        else:
            rest.append(l)
    return rest, argv0, args


# hy filters its own frames out of the traceback, so the last frame shown is runpy.run_path
ARITY_SIGNATURE = ("in run_path", "too many values to unpack (expected 1)")


def runpy_call_shape():
    """The parameter list of this interpreter's own runpy._get_code_from_file (what run_path passes)."""
    return "(" + ", ".join(inspect.signature(himp._runpy_get_code_from_file).parameters) + ")"


def part2(chk, scratch):
    rng = random.Random(1000003 * (chk.seed + 1) + 41)
    quick = chk.tier == "quick"
    nprog = len(ENDINGS) if quick else 3 * len(ENDINGS)
    nargs = 2 if quick else 4
    rundir, moddir = os.path.join(scratch, "run"), os.path.join(scratch, "mods")
    os.makedirs(rundir)
    os.makedirs(moddir)
    hy_exe = "/venv/bin/hy"
    if os.access(hy_exe, os.X_OK):
        launcher = [hy_exe]
    else:                                              # same body as the console script
        lp = os.path.join(scratch, "hy")
        with open(lp, "w") as f:
            f.write("import sys\nfrom hy.cmdline import hy_main\nif __name__ == '__main__':\n    sys.exit(hy_main())\n")
        launcher = [sys.executable, lp]
    env = dict(os.environ)
    env["PYTHONPATH"] = os.pathsep.join([core.REPO, moddir])
    env["PYTHONUTF8"] = "1"
    # ./check points PYTHONPYCACHEPREFIX at an empty directory and forbids writing bytecode, so every `hy` start would
    # recompile hy itself; give the subprocesses their own cache inside the scratch directory (filled by one warm-up run)
    env.pop("PYTHONDONTWRITEBYTECODE", None)
    env["PYTHONPYCACHEPREFIX"] = os.path.join(scratch, "pyc")
    env.pop("HY_MESSAGE_WHEN_COMPILING", None)
    chk.bounds["part2 programs"] = nprog
    chk.bounds["part2 argument lists per program"] = nargs
    chk.bounds["part2 trailing-argument pool"] = ARG_POOL
    chk.extra["hy_executable"] = " ".join(launcher)

    # the jobs
    cases = []
    for k in range(nprog):
        ending = ENDINGS[k % len(ENDINGS)]
        code = gen_program(rng, k, ending)
        fname = f"prog{k}.hy"
        modname_hy, modfile = f"hv-c41-mod{k}", os.path.join(moddir, f"hv_c41_mod{k}.hy")   # -m mangles the name
        with open(os.path.join(rundir, fname), "w") as f:
            f.write(code)
        with open(modfile, "w") as f:
            f.write(code)
        for a in range(nargs):
            args = [] if a == 0 and k == 0 else [rng.choice(ARG_POOL) for _ in range(rng.randint(1, 4))]
            prefix = PREFIXES[(k + a) % len(PREFIXES)] if a else []
            file_arg = fname if (k + a) % 3 else os.path.join(rundir, fname)          # relative and absolute
            dashdash = ["--"] if (k + a) % 4 == 3 else []
            cmds = {
                "c": launcher + prefix + ["-c", code] + args,
                "file": launcher + prefix + dashdash + [file_arg] + args,
                "stdin": launcher + prefix + dashdash + ["-"] + args,
                "m": launcher + prefix + ["-m", modname_hy] + args,
            }
            cases.append(dict(k=k, ending=ending, code=code, args=args, prefix=prefix, cmds=cmds,
                              argv0={"c": "-c", "file": file_arg, "stdin": "-", "m": modfile}))
    jobs, index = [], []
    for ci, cs in enumerate(cases):
        for mode, cmd in cs["cmds"].items():
            jobs.append((cmd, cs["code"] if mode == "stdin" else "", env, rundir))
            index.append((ci, mode))
    # implicit standard input: `hy` and `hy --` with the program on stdin and no arguments
    imp_code = "(import sys)\n(print \"ARGV\" (ascii sys.argv))\n"
    for extra in ([], ["--"], ["-B"]):
        jobs.append((launcher + extra, imp_code, env, rundir))
        index.append(("implicit", tuple(extra)))
    warm = _run((launcher + ["-c", "(print (+ 1 1))"], "", env, rundir))
    chk.ob("subproc/the hy command starts and runs a -c program", warm[0] == 0 and warm[1].strip() == "2", "subprocess", "bounded",
           detail=f"status={warm[0]} stdout={warm[1]!r} stderr={warm[2][-300:]!r}")
    with ThreadPoolExecutor(max_workers=max(2, chk.jobs)) as ex:
        results = list(ex.map(_run, jobs))
    chk.extra["subprocess_runs"] = len(jobs)

    res = {}
    implicit = {}
    for (ci, mode), r in zip(index, results):
        if ci == "implicit":
            implicit[mode] = r
        else:
            res.setdefault(ci, {})[mode] = r
            chk.case(("subproc", ci, mode))

    agg = {}

    def note(name, ok, detail, inp):
        a = agg.setdefault(name, [0, 0, None])
        a[0] += 1
        if not ok:
            a[1] += 1
            if a[2] is None:
                a[2] = (detail, inp)

    arity_crashes, file_runs = 0, 0
    first_crash = None
    for ci, cs in enumerate(cases):
        r = res[ci]
        rc_c, out_c, err_c = r["c"]
        rest_c, argv0_c, args_c = split_out(out_c)
        end = cs["ending"]
        want_args = [ascii(a) for a in cs["args"]]
        inp = {m: cs["cmds"][m] for m in cs["cmds"]}
        # the reference run itself must be a real run of the program (non-vacuity)
        if end == "hy-error":
            sane = rc_c == 1 and "NONCE" not in out_c
        else:
            sane = f"NONCE hv-c41-{cs['k']}-" in out_c and "NAME __main__" in out_c and rc_c != "timeout"
        note(f"subproc/reference-run/{end}", sane, f"hy -c ...: status={rc_c} stdout={out_c[:200]!r} stderr={err_c[-300:]!r}", inp["c"])
        for mode in ("c", "file", "stdin", "m"):
            rc, out, err = r[mode]
            if mode == "file":
                file_runs += 1
                if all(s in err for s in ARITY_SIGNATURE) and "NONCE" not in out:
                    arity_crashes += 1
                    first_crash = first_crash or (cs["cmds"]["file"], err[-400:])
                    continue
            rest, argv0, args = split_out(out)
            if end != "hy-error":
                want0 = [ascii(cs["argv0"][mode])]
                if mode == "file":       # the script name as given or as a full pathname (Python's sys.argv documentation)
                    want0.append(ascii(os.path.abspath(os.path.join(rundir, cs["argv0"][mode]))))
                note(f"subproc/argv0/{mode}", argv0 in want0,
                     f"sys.argv[0]={argv0}; expected {' or '.join(want0)}; stderr={err[-200:]!r}", inp[mode])
                note(f"subproc/args-passed-through/{mode}", args == want_args,
                     f"sys.argv[1:]={args}; expected {want_args}; stderr={err[-200:]!r}", inp[mode])
            if mode != "c":
                note(f"subproc/stdout/{mode}=c/{end}", rest == rest_c,
                     f"stdout of {mode}: {rest!r}; of -c: {rest_c!r}; stderr={err[-300:]!r}", inp[mode])
                note(f"subproc/status/{mode}=c/{end}", rc == rc_c, f"status of {mode}: {rc}; of -c: {rc_c}; stderr={err[-300:]!r}", inp[mode])
    for name, (n, nf, first) in sorted(agg.items()):
        rp = None
        if first:
            rp = {"confirmed": True, "input": first[1], "observed": first[0], "expected": name}
        chk.ob(name, nf == 0, "subprocess", "bounded", detail=None if nf == 0 else f"{nf}/{n} runs differ; first: {first[0]}\n  command: {first[1]}",
               replay=rp)

    # `hy FILE` cannot start: attributed to the call shape of this interpreter's runpy, and only to that
    shape = runpy_call_shape()
    if arity_crashes:
        chk.ob(f"subproc/file/starts/call-shape{shape}", False, "subprocess", "bounded",
               detail=f"{arity_crashes}/{file_runs} `hy FILE` runs died before the program started: {first_crash[1]!r}",
               replay={"confirmed": True, "input": first_crash[0], "observed": first_crash[1],
                       "expected": "the script runs as under -c"})
        chk.notes.append(f"{arity_crashes} of {file_runs} `hy FILE` subprocess runs hit the runpy arity crash and were not compared "
                         "with the other modes (the FILE mode's dispatch, argv and path are still decided in part 1)")
    else:
        chk.ob(f"subproc/file/starts/call-shape{shape}", True, "subprocess", "bounded")
    chk.extra["file_mode_runs_compared"] = file_runs - arity_crashes

    # implicit stdin
    bad = []
    for extra, (rc, out, err) in implicit.items():
        chk.case(("subproc", "implicit", extra))
        if out.strip() != "ARGV " + ascii([""]):
            bad.append((list(extra), out.strip(), rc))
    chk.ob("subproc/stdin-implicit/argv", not bad, "subprocess", "bounded",
           detail=None if not bad else f"`hy {' '.join(bad[0][0])}` with the program on standard input printed {bad[0][1]!r} (status {bad[0][2]}); "
                                       f"CPython gives sys.argv == [''] when no script name is passed",
           replay=None if not bad else {"confirmed": True, "input": {"cmd": launcher + bad[0][0], "stdin": imp_code},
                                        "observed": bad[0][1], "expected": "ARGV ['']"})
    # must-fail canary: the wrong clause "under -c, sys.argv[0] is the path of the hy executable" must get a different
    # verdict than the right clause ('-c') on some run
    differ = 0
    for ci, cs in enumerate(cases):
        a0 = split_out(res[ci]["c"][1])[1]
        if cs["ending"] != "hy-error" and a0 is not None and (a0 == ascii(launcher[-1])) != (a0 == ascii("-c")):
            differ += 1
    chk.canary("subproc: under -c sys.argv[0] is the path of the hy executable", differ > 0)
    for cs in cases[:3]:
        chk.sample({"mode commands": {m: " ".join(map(repr, c[len(launcher):]))[:160] for m, c in cs["cmds"].items()}})


# ------------------------------------------------------------------------------------------------------------------
# FILE mode: the real runhy.run_path / _get_code_from_file on this interpreter
# ------------------------------------------------------------------------------------------------------------------
def file_mode_contract(chk, scratch):
    shape = runpy_call_shape()
    params = list(inspect.signature(himp._runpy_get_code_from_file).parameters)
    p = os.path.join(scratch, "hv_c41_script.hy")
    with open(p, "w") as f:
        f.write("(setv hv-c41-result (+ 40 2))\n(setv hv-c41-name __name__)\n")
    # the real patched function, called the way this interpreter's runpy.run_path calls it
    call_args = {("run_name", "fname"): ("__main__", p), ("fname",): (p,), ("fname", "module"): (p, None)}.get(tuple(params))
    chk.fn("hy/importer.py::_get_code_from_file")
    arity_ok = True
    if call_args is None:
        chk.ob(f"file-mode/_get_code_from_file/call-shape{shape}", None, "rtc", "bounded", detail="unknown runpy signature")
    else:
        err = None
        try:
            r = himp._get_code_from_file(*call_args)
            ok = isinstance(r, types.CodeType) or (isinstance(r, tuple) and isinstance(r[0], types.CodeType))
        except (ValueError, TypeError) as e:
            ok, err = False, f"{type(e).__name__}: {e}"
        chk.ob(f"file-mode/_get_code_from_file/call-shape{shape}", ok, "rtc", "bounded",
               detail=None if ok else f"runpy.run_path on Python {sys.version.split()[0]} calls _get_code_from_file{shape}; "
                                      f"hy.importer._get_code_from_file{tuple(call_args)!r} -> {err}",
               replay=None if ok else {"confirmed": True, "input": f"hy.importer._get_code_from_file{tuple(call_args)!r}",
                                       "observed": err, "expected": "a code object (hy.compat.PY3_12 selects the one-argument form, "
                                                                    "which CPython's runpy only has from 3.12.6)"})
        arity_ok = ok
    # the real run_path end to end
    saved_main = sys.modules.get("__main__")
    saved_argv0 = sys.argv[0]
    try:
        try:
            g = hcl.runhy.run_path(p, run_name="__main__")
            ok, det = g.get("hv_c41_result") == 42 and g.get("hv_c41_name") == "__main__", f"globals: {sorted(k for k in g if 'c41' in k)}"
        except Exception as e:
            ok, det = False, f"{type(e).__name__}: {e}"
    finally:
        sys.modules["__main__"] = saved_main
        sys.argv[0] = saved_argv0
    if ok or call_args is None or arity_ok or "too many values to unpack" not in det:
        chk.ob("file-mode/runhy.run_path runs a .hy script as __main__", ok, "rtc", "bounded", detail=None if ok else det,
               replay=None if ok else {"confirmed": True, "input": "runhy.run_path(<file.hy>, run_name='__main__')", "observed": det,
                                       "expected": "the script's globals"})
    else:
        chk.notes.append("runhy.run_path fails with the same arity error as file-mode/_get_code_from_file/call-shape; not reported twice")

    # exits of the FILE branch: a missing file and a Hy error are turned into exit statuses without a traceback
    def missing(path):
        return FileNotFoundError(2, "No such file or directory", path)          # what open() raises for the script itself

    def program_fnf(path):
        return FileNotFoundError(2, "No such file or directory", "/nonexistent/data.txt")    # raised by the running program

    def hyerr(path):
        return HyLanguageError("hv-c41 scripted error")
    cwd = os.path.join(scratch, "cli")
    for name, eff, want in (("missing file exits with errno and a one-line message", missing, ("exit", 2)),
                            ("a FileNotFoundError raised by the program itself propagates like any other exception", program_fnf,
                             ("raise", "FileNotFoundError")),
                            ("Hy error exits with status 1", hyerr, ("exit", 1))):
        with Harness(cwd, run_path_effect=eff) as h:
            ob = h.observe(["f.hy", "arg"], False)
        if want[0] == "exit":
            ok = ob["outcome"] == want
        else:
            ok = ob["outcome"][0] == "raise" and str(ob["outcome"][1]).startswith(want[1])
        if want == ("exit", 2):
            ok = ok and "Can't open file '" in ob["stderr"] and "f.hy'" in ob["stderr"] and "Traceback" not in ob["stderr"]
        chk.ob(f"file-mode/{name}", ok, "rtc", "bounded", detail=f"outcome={ob['outcome']} stderr={ob['stderr'][-200:]!r}",
               replay={"confirmed": True, "input": "hy FILE where the program runs (open \"/nonexistent/data.txt\")"} if not ok and eff is program_fnf else None)
        chk.case(("file-exit", name))


# ------------------------------------------------------------------------------------------------------------------
def run(chk):
    chk.level = "other"
    chk.explanation = ("bounded stand-ins only: (1) the real cmdline_handler is compared with a specification function for every "
                       "argument vector up to a length bound over a fixed vocabulary, with the program runners replaced by "
                       "recorders; (2) the installed hy command is run in subprocesses in its four modes on generated programs. "
                       "Neither covers all command lines or all programs.")
    chk.fn("hy/cmdline.py::cmdline_handler", "hy/cmdline.py::cmdline_handler.proc_opt", "hy/cmdline.py::set_path",
           "hy/cmdline.py::run_command", "hy/cmdline.py::hy_main")
    chk.trust("hy.mangle (C32)", "runpy.run_module(alter_sys=True) replaces sys.argv[0] by the module's file (CPython)",
              "runpy.run_path(path) replaces sys.argv[0] by `path` while the script runs (CPython)",
              "the recorders stand for the runners at their call boundary in part 1; part 2 runs the real runners",
              "the specification function cli() as the reading of docs/cli.rst, `hy --help` and CPython's conventions")
    base = os.environ.get("HV_SCRATCH")
    if base and os.path.isdir(base):
        scratch = tempfile.mkdtemp(prefix="c41_", dir=base)
    else:
        scratch = tempfile.mkdtemp(prefix=".hv_c41_", dir="/root" if os.access("/root", os.W_OK) else None)
    scratch = os.path.realpath(scratch)
    try:
        cwd = os.path.join(scratch, "cli")
        os.makedirs(cwd)
        for w in VOCAB + EXT:
            if w != "-":
                with open(os.path.join(cwd, w), "w") as f:
                    f.write(file_text(w))
        # ---- part 1 ---------------------------------------------------------------------------------------------
        quick = chk.tier == "quick"
        maxlen = 3 if quick else 4
        extlen = 2 if quick else 3
        chk.bounds["part1 vocabulary"] = VOCAB
        chk.bounds["part1 max argv length"] = maxlen
        chk.bounds["part1 extended vocabulary"] = EXT
        chk.bounds["part1 max argv length (vectors containing an extended word)"] = extlen
        chk.bounds["part1 stdin"] = ["not a tty", "tty"]
        t1 = time.time()
        jobs = [("v", VOCAB, 0, None, None, cwd)]
        jobs += [("v", VOCAB, maxlen, w, None, cwd) for w in VOCAB]
        jobs += [("x", VOCAB + EXT, extlen, w, EXT, cwd) for w in VOCAB + EXT]
        if quick:
            parts = [_enumerate(j) for j in jobs]
        else:
            with multiprocessing.get_context("fork").Pool(chk.jobs) as pool:
                parts = pool.map(_enumerate, jobs, chunksize=1)
        chk.extra["part1_wall_s"] = round(time.time() - t1, 1)
        total, canary = {}, {}
        ncases = 0
        for agg, can, n in parts:
            _merge(total, agg)
            for k, v in can.items():
                canary[k] = canary.get(k, 0) + v
            # the jobs enumerate disjoint sets of (argv, tty) pairs (different first word / must contain an extended word),
            # so every case is distinct; they are counted by index instead of shipping the tuples back from the workers
            chk.evaluations += n
            if len(chk.distinct) + n <= 2_000_000:
                chk.distinct.update(("cli", ncases + i) for i in range(n))
            ncases += n
        chk.extra["part1_command_lines_x_tty"] = ncases
        for (clause, lab), (n, nf, first) in sorted(total.items()):
            rp = None
            if first:
                rp = {"confirmed": True, "input": {"argv": ["hy"] + first["argv"], "stdin_is_tty": first["stdin_is_tty"]},
                      "observed": first["detail"], "expected": f"cli() specification, clause {clause}"}
            chk.ob(f"cli/{clause}/{lab}", nf == 0, "rtc", "exhaustive_finite",
                   detail=None if nf == 0 else f"{nf}/{n} command lines; first: hy {' '.join(first['argv'])} "
                                               f"(stdin {'is' if first['stdin_is_tty'] else 'is not'} a tty): {first['detail']}",
                   replay=rp)
        # every class of the specification must have been reached (vacuity guard)
        reached = {lab for (_, lab) in total}
        want = {"c", "c+i", "m", "m+i", "file", "file+i", "stdin", "stdin+i", "stdin-implicit", "stdin-implicit+i", "repl",
                "help", "version", "error"}
        chk.ob("cli/every mode class of the specification is reached by the enumeration", want <= reached, "rtc",
               "exhaustive_finite", detail=f"missing: {sorted(want - reached)}")
        chk.canary("cli: options keep being read after `-c CMD`", canary.get("c-does-not-terminate", 0) > 0)
        chk.canary("cli: under -m sys.argv is exactly ARGS (no slot for the module's file)", canary.get("m-without-argv0-slot", 0) > 0)
        with Harness(cwd) as h:
            for argv in (["-c", "arg", "-i", "-x"], ["-B", "-m", "f.hy", "--", "-h"], ["--", "-x", "-c"], ["-ic", "arg", "-"]):
                ob = h.observe(argv, False)
                chk.sample({"argv": argv, "spec": {k: (sorted(v) if isinstance(v, set) else v) for k, v in cli(argv, False).items()},
                            "runners": [(k, {a: b for a, b in v.items() if a in ("source", "name", "path", "argv", "filename")})
                                        for k, v in ob["calls"]]})
        # ---- FILE mode on this interpreter; part 2 --------------------------------------------------------------
        file_mode_contract(chk, scratch)
        t2 = time.time()
        part2(chk, scratch)
        chk.extra["part2_wall_s"] = round(time.time() - t2, 1)
    finally:
        shutil.rmtree(scratch, ignore_errors=True)


def replay(path):
    from hv.replay import replay_file
    return replay_file(path)
