"""C03 operator macros agree with the hy.pyops functions and the documented Python expansion."""
import ast
import itertools
import re
import types

import hy
import hy.pyops
from hy.errors import HySyntaxError
from hy.models import Expression, Integer, Keyword, List, Symbol
from hy.reader import mangle

from hv import equiv, hysem, pysem, rules
from hv.concrete import RT, V, LogExc, term_of
from hv.symx import core as sx
from hv.symx.core import E, S, Tok

META = {
    "engine": "symx+pysem",
    "level": "proof",
    "technique": "contract-based: (1) compile_maths_expression / compile_unary_operator / compile_compare_op_expression / "
                 "compile_augassign_expression / the pattern_macro shadow branch run on opaque operands, postcondition "
                 "pysem(emitted) == documented expansion (left fold, right fold for **, unary/nullary forms, chained "
                 "comparison, aggregator taken from the live hy.pyops docstrings) with a raise decision on every operator "
                 "application; (2) every hy.pyops function executed on opaque logging operands: same operator applications, "
                 "same order, same result term as that expansion",
    "text": "All operators with a core macro, every allowed arity 0..6 (the property's own bound; 0..4 in the quick tier), all "
            "operand shapes: the emitted code performs exactly the operator applications of the documented expansion, in an "
            "order the docs allow, yields the same value term and raises from the same application (any operator application "
            "may raise: exception type equality follows from identical operations on identical operands). Arity limits are "
            "Hy syntax errors; #* arguments compile to the hy.pyops call with unchanged arguments; (op= t a b ...) equals "
            "t op= agg(a b ...) with the documented aggregator. Each hy.pyops function is run natively on opaque operands "
            "and performs the same applications and returns the same term, so macro, function and expansion agree for "
            "all operand values (stronger than the listed value classes).",
    "note": "Trusted: functools.reduce is a left fold; Python's operator dispatch (operator.add(a,b) is a + b); pysem/hysem; "
            "`is`, `is-not`, `in`, `not-in` cannot be intercepted on opaque operands when run natively - for these four the "
            "pyops side is checked on concrete values (bounded). Chained comparisons with statement-producing operands have no "
            "Python expansion: only pure operands are compared for arity >= 3 (statement shapes: structure check).",
}

MATHS = {"+": 0, "*": 0, "|": 0, "-": 1, "/": 1, "&": 1, "@": 1, "**": 2, "//": 2, "<<": 2, ">>": 2, "%": 2, "^": 2}
MAXA = {"%": 2, "^": 2}
CMP = {"=": 1, "<": 1, "<=": 1, ">": 1, ">=": 1, "is": 1, "!=": 2, "is-not": 2, "in": 2, "not-in": 2}


def documented_aggregators():
    """op -> aggregator, from the live docstrings of hy.pyops ("Aggregator for augmented assignment: ...")."""
    out = {}
    for op in MATHS:
        f = getattr(hy.pyops, mangle(op))
        m = re.search(r"Aggregator for augmented assignment: :hy:func:`(\S+) <", f.__doc__ or "")
        out[op] = m.group(1) if m else op
    return out


def run_pyops(op, n, decisions=None):
    """Run the real hy.pyops function on n opaque operands; returns (op events, completion, value term)."""
    rt = RT(decisions or {})
    args = [V(rt, ("val", f"t{i}", 0)) for i in range(n)]
    f = getattr(hy.pyops, mangle(op))
    try:
        v = f(*args)
        return tuple(rt.trace), "value", term_of(v)
    except LogExc as e:
        return tuple(rt.trace), "raise", e.term
    except TypeError as e:
        return tuple(rt.trace), "type-error", str(e)[:60]


def reference(op, n, decisions):
    toks = sx.tokens(("E",) * n)
    o = pysem.Oracle((), decisions)
    tr, kind, val = hysem.run_form(E(S(op), *toks), op_raises=True)(o)
    return tuple(e for e in tr if e[0] == "op"), kind, val, o


def pyops_vs_reference(chk, op, n):
    """All decision vectors (which application raises / which comparison is false) of the reference are replayed on the
    real function."""
    toks = sx.tokens(("E",) * n)
    paths = pysem.explore(hysem.run_form(E(S(op), *toks), op_raises=True))
    bad = None
    for dec, (tr, kind, val) in paths:
        if any(k[0] == "completes" and v for k, v in dec.items()):
            continue        # operands themselves raising: not expressible for a function call with evaluated arguments
        want = (tuple(e for e in tr if e[0] == "op"), kind, val)
        rt = RT(dec)
        got = run_pyops(op, n, dec)
        from hv.concrete import concretise
        want = (concretise(want[0], rt), want[1], concretise(want[2], rt))
        chk.case(("pyops", op, n, tuple(sorted((repr(k), v) for k, v in dec.items() if v))))
        if got != want:
            bad = f"decisions={ {k: v for k, v in dec.items() if v} }\n  function : {got}\n  expansion: {want}"
            break
    return bad, len(paths)


def run(chk):
    quick = chk.tier == "quick"
    hi = 4 if quick else 6
    hysem.H.AGG = documented_aggregators()
    C = rules.Case
    names = []
    RM = "hy/core/result_macros.py::"
    OPK = dict(op_raises=True)
    SH = ("E", "SE")
    for op, lo in MATHS.items():
        for n in range(0, min(hi, MAXA.get(op, hi)) + 2):
            nm = f"maths/{op}/{n}"
            if n < lo or n > MAXA.get(op, 99):
                if n > hi:
                    continue
                toks = sx.tokens(("E",) * n)
                out = sx.run_rule(E(S(op), *toks))
                chk.ob(f"arity/({op}) with {n} arguments is a Hy syntax error", (not out.ok) and isinstance(out.exc, HySyntaxError),
                       "structural", "proved", detail=repr(out.exc)[:120] if not out.ok else "accepted")
                continue
            if n > hi:
                continue
            C(nm, lambda *a, op=op: E(S(op), *a), n, SH if n <= 4 else ("E",), kind="arity_bounded", ctxkw=OPK,
              fn=RM + "compile_maths_expression", wrap=False)
            names.append(nm)
    for op in ("not", "bnot"):
        C(f"unary/{op}", lambda a, op=op: E(S(op), a), 1, ("E", "SE", "S"), ctxkw=OPK, fn=RM + "compile_unary_operator", wrap=False)
        names.append(f"unary/{op}")
    # real composite operands: a rule can inspect the node class of what a child compiled to (`not` of a comparison, of a
    # boolean operation, of another `not`; an operator applied to operator results)
    for cop in CMP:
        nm = f"unary/not of ({cop} a b)"
        C(nm, lambda a, b, cop=cop: E(S("not"), E(S(cop), a, b)), 2, ("E",), ctxkw=OPK, fn=RM + "compile_unary_operator", wrap=False)
        names.append(nm)
    for nm, mk in (("unary/not of (< a b c)", lambda a, b, c: E(S("not"), E(S("<"), a, b, c))),
                   ("unary/not of (not a)", lambda a: E(S("not"), E(S("not"), a))),
                   ("unary/not of (and a b)", lambda a, b: E(S("not"), E(S("and"), a, b))),
                   ("unary/bnot of (bnot a)", lambda a: E(S("bnot"), E(S("bnot"), a))),
                   ("unary/bnot of (- a)", lambda a: E(S("bnot"), E(S("-"), a))),
                   ("maths/- of (- a b) c", lambda a, b, c: E(S("-"), E(S("-"), a, b), c)),
                   ("maths/** of (- a) b", lambda a, b: E(S("**"), E(S("-"), a), b)),
                   ("cmp/< of (< a b) c", lambda a, b, c: E(S("<"), E(S("<"), a, b), c))):
        # (composite operands in a later position are left out: the reference follower orders whole sibling sub-forms, and
        # the documentation leaves their relative order open)
        C(nm, mk, mk.__code__.co_argcount, ("E",), ctxkw=OPK, wrap=False)
        names.append(nm)
    for op, lo in CMP.items():
        for n in range(0, hi + 1):
            if n < lo:
                toks = sx.tokens(("E",) * n)
                out = sx.run_rule(E(S(op), *toks))
                chk.ob(f"arity/({op}) with {n} arguments is a Hy syntax error", (not out.ok) and isinstance(out.exc, HySyntaxError),
                       "structural", "proved", detail=repr(out.exc)[:120] if not out.ok else "accepted")
                continue
            nm = f"cmp/{op}/{n}"
            C(nm, lambda *a, op=op: E(S(op), *a), n, SH if n <= 2 else ("E",), kind="arity_bounded", ctxkw=OPK,
              fn=RM + "compile_compare_op_expression", wrap=False)
            names.append(nm)
    # chained comparison with statement-producing operands: one Compare node, same operator repeated, operands in order
    for op in CMP:
        toks = sx.tokens(("SE", "E", "SE"))
        out = sx.run_rule(E(S(op), *toks))
        r = out.result
        ok = out.ok and isinstance(r._expr, ast.Compare) and len(r._expr.ops) == 2 and len({type(o) for o in r._expr.ops}) == 1 \
            and [x.tok for x in [r._expr.left] + r._expr.comparators] == toks and [repr(s) for s in r.stmts] == ["S[t0]", "S[t2]"]
        chk.ob(f"cmp-structure/({op} SE E SE): one Compare, repeated operator, operands in order, statements hoisted once", ok,
               "structural", "proved", detail=sx.show(r) if out.ok else repr(out.exc))
    # augmented assignment
    for op in MATHS:
        for n in range(1, (3 if MAXA.get(op) else hi) + 1):
            if MAXA.get(op) and n > 1:
                toks = sx.tokens(("E",) * n)
                out = sx.run_rule(E(S(op + "="), S("ux"), *toks))
                chk.ob(f"arity/({op}= x ...) with {n} values is a Hy syntax error", (not out.ok) and isinstance(out.exc, HySyntaxError),
                       "structural", "proved")
                continue
            nm = f"aug/{op}=/{n}"
            C(nm, lambda *a, op=op: E(S(op + "="), S("ux"), *a), n, SH if n <= 3 else ("E",), kind="arity_bounded", ctxkw=OPK,
              fn=RM + "compile_augassign_expression", wrap=False)
            names.append(nm)
    # #* falls back to the pyops function
    for op in list(MATHS) + list(CMP) + ["and", "or", "not", "bnot", "get"]:
        for pos in (0, 1):
            nm = f"shadow/{op}/star-at-{pos}"

            def mk(a, b, op=op, pos=pos):
                args = [a, E(S("unpack-iterable"), b)]
                if pos == 0:
                    args.reverse()
                return E(S(op), *args)
            C(nm, mk, 2, SH, kind="proved", fn="hy/macros.py::pattern_macro (shadow branch)", wrap=False)
            names.append(nm)
    from hv.replay import replay_mismatch
    rules.run_cases(chk, names, replay_fn=replay_mismatch)

    # pyops functions vs the documented expansion
    nb = 0
    for op, lo in list(MATHS.items()) + list(CMP.items()) + [("bnot", 1)]:
        if op in ("is", "is-not", "in", "not-in"):
            continue
        for n in range(lo, (1 if op == "bnot" else min(hi, MAXA.get(op, hi))) + 1):
            bad, k = pyops_vs_reference(chk, op, n)
            nb += k
            chk.ob(f"pyops/hy.pyops.{op} with {n} operands performs the operator applications of the documented expansion", bad is None,
                   "enum-euf", "arity_bounded", detail=bad,
                   replay=None if bad is None else {
                       "confirmed": True, "input": f"hy.pyops.{op}(*operands): the real function called with {n} operand objects whose special "
                       "methods log every operator application (and raise / answer False as the decisions say)", "observed": bad})
        # arity limits of the functions agree with the macros
        for n in range(0, lo):
            r = run_pyops(op, n)
            chk.ob(f"pyops/hy.pyops.{op} rejects {n} operands (TypeError), like the macro", r[1] == "type-error", "structural", "proved", detail=str(r))
    chk.extra["pyops_paths"] = nb
    # identity / membership on concrete values (not interceptable on opaque operands)
    vals = [1, 1.0, True, "a", "ab", [1], [1, "a"], None, {1}, ()]
    bad = []
    for op in ("is", "is-not", "in", "not-in"):
        f = getattr(hy.pyops, mangle(op))
        pyop = {"is": "is", "is-not": "is not", "in": "in", "not-in": "not in"}[op]
        for n in (2, 3):
            for xs in itertools.product(vals, repeat=n):
                chk.case((op, xs if all(not isinstance(x, (list, set)) for x in xs) else repr(xs)))
                env = {f"x{i}": x for i, x in enumerate(xs)}
                try:
                    want = ("v", eval(f" {pyop} ".join(env), {}, env))
                except Exception as e:  # noqa: BLE001
                    want = ("e", type(e).__name__)
                try:
                    got = ("v", f(*xs))
                except Exception as e:  # noqa: BLE001
                    got = ("e", type(e).__name__)
                if got != want:
                    bad.append((op, xs, got, want))
    chk.ob("pyops/is, is-not, in, not-in agree with Python's chained operators on a value grid (incl. TypeError cases)", not bad,
           "cpython-oracle", "bounded", detail=str(bad[:3]))
    chk.fn(RM + "compile_maths_expression", RM + "compile_unary_operator", RM + "compile_compare_op_expression", RM + "get_c_op",
           RM + "compile_augassign_expression", "hy/macros.py::pattern_macro (shadow branch)", "hy/pyops.hy::every defop function, comp-op, _foldr")
    chk.trust("functools.reduce is a left fold", "Python operator dispatch", "pysem/hysem", "documented aggregators read from the live docstrings")
    chk.bounds["arity"] = f"0..{hi}"
    chk.extra["documented_aggregators"] = hysem.H.AGG
    # canaries
    toks = sx.tokens(("E", "E", "E"))
    out = sx.run_rule(E(S("-"), *toks))
    _, bad = equiv.compare(out.result, E(S("-"), toks[0], E(S("-"), toks[1], toks[2])), op_raises=True)
    chk.canary("left fold of - vs right-nested reference", bool(bad))
    saved = dict(hysem.H.AGG)
    hysem.H.AGG["-"] = "-"
    out = sx.run_rule(E(S("-="), S("ux"), *toks))
    _, bad = equiv.compare(out.result, E(S("-="), S("ux"), *toks), op_raises=True)
    hysem.H.AGG = saved
    chk.canary("-= with aggregator - instead of the documented +", bool(bad))
    chk.sample({"op": "**", "arity": 3, "expansion": "t0 ** (t1 ** t2)"})


def replay(path):
    from hv.replay import replay_file
    return replay_file(path)
