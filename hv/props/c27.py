"""C27 hy.repr round-trips values of the documented types."""
import gc
import itertools
import math
import multiprocessing
from collections import ChainMap, Counter, OrderedDict, defaultdict, deque
from fractions import Fraction

import hv.symx.core  # noqa: F401
import hy
import hy.core.hy_repr as HR
from hv.props import _c27_lib as L
from hv.props.c25 import STR_ALPHA, BYTE_ALPHA, Group, occurrences

META = {
    "engine": "rtc",
    "level": "other",
    "technique": "contract-based: (1) parametric contract on every container printer registered in hy.core.hy_repr._registry: the "
                 "real registered function is called on containers of 0..4 opaque marker objects (printed as unique names bound "
                 "to the markers in the evaluation namespace); every marker occurs exactly once and in order, and hy.eval of the "
                 "text rebuilds a container of the same type holding the identical markers - with the leaf printers this gives "
                 "the round trip for all acyclic values by induction on nesting; (2) leaf printers over vocabularies with "
                 "CPython's literal_eval / float / complex as oracles; (3) run-time round trip hy.eval(hy.read(hy.repr(x))) on "
                 "the real functions over a deterministic enumeration (every container kind nested to depth 3) and hypothesis "
                 "values: same type at every node, equality (NaN by isnan), zero signs; (4) self-referential containers: the "
                 "text equals the text of the same structure with the back-reference replaced by the registered placeholder, "
                 "printing terminates (recursion and time guard) and _seen/_quoting are restored",
    "text": "For values built from None, bool, int, float (inf, nan, -0.0), complex, str, bytes, bytearray, list, tuple, dict, set, "
            "frozenset, Keyword, Fraction, range, slice, deque, OrderedDict, Counter, defaultdict of a builtin factory and "
            "ChainMap: evaluating the printed text in a module that imports the collection names gives an equal value of the "
            "same type (recursively); no container printer drops, duplicates or reorders a child; a container reached again "
            "while it is being printed prints as its registered placeholder (default ...) and printing terminates.",
    "note": "Level other: container contracts are complete in child kinds (children are opaque) but bounded in arity (<= 4); leaf "
            "printers, the end-to-end round trip and the self-reference shapes are bounded stand-ins.  Trusted: hy.read/hy.eval "
            "of the printed call forms, CPython oracles for literals.  deque maxlen is not part of deque equality and is not "
            "checked.",
}

REG = HR._registry


class Mk:
    """opaque child: prints as a unique name that evaluates to this very object"""
    n = 0

    def __init__(self):
        Mk.n += 1
        self.token = f"HVM{Mk.n}"
        setattr(L.NS, self.token, self)

    def __repr__(self):
        return f"<{self.token}>"


class Err:
    """result of a failed evaluation / print (compares unequal to everything)"""

    def __init__(self, e):
        self.e = e

    def __repr__(self):
        return f"<{type(self.e).__name__}: {str(self.e)[:80]}>"


def ev(text):
    try:
        return hy.eval(L.read_all(text), module=L.NS)
    except Exception as e:  # noqa: BLE001
        return Err(e)


def pr(f, x):
    """call a real printer; an exception or non-string becomes a text no contract accepts (never a checker crash)"""
    try:
        with L.time_guard(10):
            r = f(x)
        return r if isinstance(r, str) else f"\x00printer returned {type(r).__name__}\x00"
    except (Exception, L.Timeout) as e:  # noqa: BLE001
        HR._seen.clear()
        return f"\x00printer raised {type(e).__name__}: {str(e)[:80]}\x00"


def markers(n):
    return [Mk() for _ in range(n)]


def container_shapes():
    """(type name, builder(markers) -> container, expected child order(container) -> list)"""
    flat = lambda x: list(x)
    kv = lambda x: [c for p in x.items() for c in p]
    pairs = lambda ms: list(zip(ms[0::2], ms[1::2]))
    return [
        ("list", list, lambda ms: list(ms), flat, 1),
        ("tuple", tuple, lambda ms: tuple(ms), flat, 1),
        ("set", set, lambda ms: set(ms), flat, 1),
        ("frozenset", frozenset, lambda ms: frozenset(ms), flat, 1),
        ("deque", deque, lambda ms: deque(ms), flat, 1),
        ("dict", dict, lambda ms: dict(pairs(ms)), kv, 2),
        ("OrderedDict", OrderedDict, lambda ms: OrderedDict(pairs(ms)), kv, 2),
        ("Counter", Counter, lambda ms: L._counter(pairs(ms)), kv, 2),
        ("defaultdict", defaultdict, lambda ms: defaultdict(None, pairs(ms)), kv, 2),
        ("ChainMap", ChainMap, lambda ms: ChainMap(*ms), lambda x: list(x.maps), 1),
        ("slice", slice, lambda ms: slice(*ms), lambda x: [x.start, x.stop, x.step], 0),
    ]


def container_contracts(chk, G, maxn):
    for name, T, build, order, per in container_shapes():
        sizes = [3] if per == 0 else range(0, maxn + 1)
        for n in sizes:
            ms = markers(n * max(per, 1)) if per else markers(3)
            if name == "ChainMap" and n == 0:
                ms = []
            x = build(ms)
            text = pr(REG[T][0], x)
            kids = order(x)
            if name == "ChainMap" and n == 0:
                kids = []
            toks = [k.token for k in kids]
            chk.case(("container", name, n))
            base = f"printer/{name}/children={len(kids)}"
            msg = occurrences(text, toks)
            G.add(f"{base}/every child once and in order", msg is None, msg, inp=f"{name} of {toks}", observed=text)
            try:
                y = hy.eval(L.read_all(text), module=L.NS)
                got = order(y) if type(y) is T else None
                if name in ("set", "frozenset") and got is not None:
                    ok = set(map(id, got)) == set(map(id, kids)) and len(got) == len(kids)
                elif name == "ChainMap" and n == 0:
                    ok = type(y) is T and y.maps == [{}]
                else:
                    ok = got is not None and len(got) == len(kids) and all(a is b for a, b in zip(got, kids))
                why = f"{text!r} evaluates to {y!r}"
            except Exception as e:  # noqa: BLE001
                ok, why = False, f"{text!r} does not evaluate: {type(e).__name__}: {e}"
            G.add(f"{base}/the text evaluates to the same type holding the identical children", ok, why, inp=f"{name} of {toks}",
                  observed=text, expected=f"a {name} of the same objects")
    # range, Fraction, bytearray: components are integers / bytes
    for a, b, c in itertools.product([0, 1, -7, 1001], [0, 5, -3, 2002], [1, -1, 2, 3003]):
        x = range(a, b, c)
        text = pr(REG[range][0], x)
        y = ev(text)
        chk.case(("range", a, b, c))
        nums = text.strip("()").split()[1:]
        want = [str(b)] if (c == 1 and a == 0) else [str(a), str(b)] if c == 1 else [str(a), str(b), str(c)]
        G.add("printer/range/the components that differ from the defaults, once and in order", nums == want, f"printed {text!r}",
              inp=repr(x), observed=text, expected=want, kind="bounded")
        G.add("printer/range/the text evaluates to an equal range with the same start, stop and step",
              type(y) is range and (y.start, y.stop, y.step) == (a, b, c), f"{text!r} evaluates to {y!r}", inp=repr(x), observed=text,
              kind="bounded")
    for s in itertools.product([None, 0, 1, 4004], [None, 0, 7, 5005], [None, 1, -1, 6006]):
        x = slice(*s)
        text = pr(REG[slice][0], x)
        y = ev(text)
        chk.case(("slice", s))
        G.add("printer/slice/the text evaluates to a slice with the same start, stop and step",
              type(y) is slice and (y.start, y.stop, y.step) == s, f"{text!r} evaluates to {y!r}", inp=repr(x), observed=text,
              kind="bounded")
    for nu, de in itertools.product([0, 1, -1, 22, -355, 10 ** 20], [1, 3, 7, 113, 10 ** 15 + 37]):
        x = Fraction(nu, de)
        text = pr(REG[Fraction][0], x)
        y = ev(text)
        chk.case(("Fraction", nu, de))
        G.add("printer/Fraction/numerator and denominator once and in order; evaluates to an equal Fraction",
              type(y) is Fraction and y == x and text.split() == ["(Fraction", str(x.numerator), str(x.denominator) + ")"],
              f"{text!r} evaluates to {y!r}", inp=repr(x), observed=text, kind="bounded")
    # defaultdict: the factory is printed as an expression that evaluates to it
    for fac in [None] + L.FACTORIES:
        x = defaultdict(fac, {1: 2})
        text = pr(REG[defaultdict][0], x)
        chk.case(("defaultdict-factory", repr(fac)))
        try:
            y = hy.eval(L.read_all(text), module=L.NS)
            ok, why = type(y) is defaultdict and y.default_factory is fac and dict(y) == {1: 2}, f"{text!r} evaluates to {y!r}"
        except Exception as e:  # noqa: BLE001
            ok, why = False, f"{text!r} does not evaluate: {type(e).__name__}: {str(e)[:80]}"
        fname = "None" if fac is None else "a builtin type"
        G.add(f"printer/defaultdict/factory={fname}/the text evaluates to a defaultdict with the same factory", ok, why, inp=repr(x),
              observed=text, expected=f"(defaultdict {getattr(fac, '__name__', None)} {{1 2}})", kind="bounded")


def leaf_contracts(chk, G, maxlen):
    import ast
    f = REG[str][0]
    for n in range(maxlen + 1):
        for cs in itertools.product(STR_ALPHA, repeat=n):
            s = "".join(cs)
            text = pr(f, s)
            chk.case(("str", s))
            try:
                v = ast.literal_eval(text) if text.startswith('"') and "\n" not in text else None
            except Exception:  # noqa: BLE001
                v = None
            cls = L.value_class(s)
            G.add(f"printer/{cls}/CPython evaluates the double-quoted literal to the string", v == s and type(v) is str,
                  f"printed {text!r}", inp=repr(s), observed=text, expected=s, kind="bounded", backend="cpython-oracle")
            try:
                m = L.read_all(text)
                ok = type(m) is hy.models.String and str(m) == s and m.brackets is None
            except Exception as e:  # noqa: BLE001
                ok, m = False, e
            G.add(f"printer/{cls}/the reader maps the text to a string literal with this content", ok, f"{text!r} reads as {m!r}",
                  inp=repr(s), observed=text, kind="bounded")
    for n in range(maxlen + 1):
        for cs in itertools.product(BYTE_ALPHA, repeat=n):
            b = bytes(cs)
            for x in (b, bytearray(b)):
                text = pr(REG[type(x)][0], x)
                chk.case((type(x).__name__, b))
                try:
                    y = hy.eval(L.read_all(text), module=L.NS)
                except Exception as e:  # noqa: BLE001
                    y = e
                G.add(f"printer/{type(x).__name__}/the text evaluates to equal {type(x).__name__}", type(y) is type(x) and y == x,
                      f"{text!r} evaluates to {y!r}", inp=repr(x), observed=text, kind="bounded")
    same = L._fsame
    py = lambda s: s.replace("Inf", "inf").replace("NaN", "nan")
    fl = [0.0, -0.0, 1.0, -1.5, 0.1, 1e16, 1e22, 1e-5, 1e-7, 5e-324, 1.7976931348623157e308, 123456789.123456789, 1 / 3,
          math.inf, -math.inf, math.nan, 2.5e-300, 1e100, 9007199254740993.0]
    for x in fl:
        text = pr(REG[float][0], x)
        chk.case(("float", repr(x)))
        try:
            ok = same(float(py(text)), x)
        except ValueError:
            ok = False
        G.add(f"printer/{L.value_class(x)}/CPython parses the text to the same float", ok, f"printed {text!r}", inp=repr(x), observed=text,
              kind="bounded", backend="cpython-oracle")
    for re_, im in itertools.product(fl[:6] + fl[13:16], repeat=2):
        z = complex(re_, im)
        text = pr(REG[complex][0], z)
        chk.case(("complex", repr(z)))
        try:
            w = complex(py(text))
            ok = same(w.real, re_) and same(w.imag, im)
        except ValueError:
            ok = False
        G.add(f"printer/{L.value_class(z)}/CPython parses the text to the same complex number", ok, f"printed {text!r}", inp=repr(z),
              observed=text, kind="bounded", backend="cpython-oracle")
    for x in (None, True, False, 0, -1, 2 ** 100, -10 ** 30):
        text = pr(hy.repr, x)
        chk.case(("const", repr(x)))
        G.add(f"printer/{L.value_class(x)}/the text is the Python spelling", text == repr(x), f"printed {text!r}", inp=repr(x), observed=text,
              kind="bounded")


# ---------------------------------------------------------------------------------------------
# self-reference
# ---------------------------------------------------------------------------------------------
def placeholder(x):
    p = REG.get(type(x), (None, None))[1]
    return "..." if p is None else p


def _put(c, item, where):
    """insert `item` into container c at a position; returns nothing"""
    if isinstance(c, list):
        c.insert({"first": 0, "last": len(c), "middle": len(c) // 2}[where], item)
    elif isinstance(c, deque):
        (c.appendleft if where == "first" else c.append)(item)
    elif isinstance(c, ChainMap):
        c.maps[0][f"k-{where}"] = item
    else:
        c[f"k-{where}"] = item


SELF_MAKERS = [
    ("list", lambda: [1, 2]), ("dict", lambda: {"a": 1, "b": 2}), ("deque", lambda: deque([1, 2])),
    ("OrderedDict", lambda: OrderedDict(a=1, b=2)), ("Counter", lambda: Counter(a=1, b=2)),
    ("defaultdict", lambda: defaultdict(None, {"a": 1})), ("ChainMap", lambda: ChainMap({"a": 1}, {"b": 2})),
]
WRAPS = [("direct", lambda x: x), ("via tuple", lambda x: (0, x)),
         ("via list", lambda x: [x, 0]), ("via dict", lambda x: {"w": x}), ("via deque", lambda x: deque([x])),
         ("via ChainMap", lambda x: ChainMap({"m": x})), ("via OrderedDict", lambda x: OrderedDict(o=x)),
         ("via Counter", lambda x: L._counter([("c", x)])), ("via defaultdict", lambda x: defaultdict(None, {"d": x})),
         ("via slice", lambda x: slice(None, x)), ("via two lists", lambda x: [[x]])]


def self_reference(chk, G):
    for (cname, mk), (wname, wrap), where in itertools.product(SELF_MAKERS, WRAPS, ("first", "middle", "last")):
        if where != "last" and cname != "list":
            continue
        a = mk()
        _put(a, wrap(a), where)                 # a contains (a wrapper around) itself
        b = mk()
        marker = Mk()
        _put(b, wrap(marker), where)            # the same structure with an opaque object in place of the back-reference
        chk.case(("self", cname, wname, where))
        name = f"self-reference/{cname}/{wname}"
        REG[Mk] = ((lambda x: x.token), None)
        try:
            want = pr(hy.repr, b).replace(marker.token, placeholder(a))
        finally:
            del REG[Mk]
        got = pr(hy.repr, a)
        ok, why = got == want, f"printed {got!r}"
        G.add(f"{name}/prints the registered placeholder at the back-reference and terminates", ok, why, inp=f"{cname} containing itself {wname} ({where})",
              observed=got, expected=want, kind="bounded")
        G.add(f"self-reference/{cname}/_seen and _quoting are restored afterwards", HR._seen == set() and HR._quoting is False, f"_seen={HR._seen} _quoting={HR._quoting}",
              inp=f"{cname} {wname}", kind="bounded")
        HR._seen.clear()
    # two containers referring to each other: each prints the other's body and its own placeholder
    for (n1, m1), (n2, m2) in itertools.product(SELF_MAKERS, repeat=2):
        a, b = m1(), m2()
        _put(a, b, "last")
        _put(b, a, "last")
        a2, b2, marker = m1(), m2(), Mk()
        _put(a2, b2, "last")
        _put(b2, marker, "last")
        REG[Mk] = ((lambda x: x.token), None)
        try:
            want = pr(hy.repr, a2).replace(marker.token, placeholder(a))
        finally:
            del REG[Mk]
        chk.case(("cycle2", n1, n2))
        got = pr(hy.repr, a)
        ok, why = got == want, f"printed {got!r}"
        G.add(f"self-reference/{n1}/cycle through a second container/prints the registered placeholder at the back-reference and terminates", ok, why,
              inp=f"{n1} <-> {n2}", observed=got, expected=want, kind="bounded")
    # a shared (not cyclic) sub-object is printed in full each time
    s = [1]
    got = pr(hy.repr, [s, s, {"k": s}])
    G.add("self-reference/a shared acyclic sub-object is printed in full at every occurrence", got == '[[1] [1] {"k" [1]}]', f"printed {got!r}",
          inp="[s s {\"k\" s}]", observed=got, kind="bounded")
    bad = placeholder_table()
    chk.ob("self-reference/registered placeholders of the builtin containers are the ones in hy_repr.hy's table", not bad, "structural",
           "exhaustive_finite", detail=str(bad))


def placeholder_table():
    docs = {list: "[...]", dict: "{...}", set: "#{...}", frozenset: "(frozenset #{...})", deque: "(deque [...])", tuple: None,
            OrderedDict: None, Counter: None, defaultdict: None, ChainMap: None}
    return {t.__name__: REG[t][1] for t, p in docs.items() if REG[t][1] != p}


# ---------------------------------------------------------------------------------------------
# round trip of nested values
# ---------------------------------------------------------------------------------------------
class Acc:
    def __init__(self):
        self.seen, self.fails, self.n = {}, {}, 0

    def feed(self, x):
        self.n += 1
        classes, f = L.run_case(x)
        for c in classes:
            self.seen[c] = self.seen.get(c, 0) + 1
        if f:
            cls, clause, detail, msrc = f
            e = self.fails.setdefault((cls, clause), {"n": 0, "best": None})
            e["n"] += 1
            if e["best"] is None or len(msrc) < len(e["best"][0]):
                e["best"] = (msrc, detail, repr(x)[:300])

    def result(self):
        return {"seen": self.seen, "fails": self.fails, "n": self.n}


_ENUM = None


def enum_worker(args):
    lo, hi = args
    acc = Acc()
    for fam, x in _ENUM[lo:hi]:
        acc.feed(x)
    return acc.result()


def hyp_worker(args):
    seed, n = args
    from hypothesis import HealthCheck, Phase, given, settings
    from hypothesis import seed as hseed
    acc = Acc()

    @hseed(seed)
    @settings(max_examples=n, database=None, deadline=None, suppress_health_check=list(HealthCheck), phases=[Phase.generate])
    @given(L.value_strategy())
    def t(x):
        acc.feed(x)
    t()
    return acc.result()


def merge(results):
    tot = {"seen": {}, "fails": {}, "n": 0}
    for r in results:
        tot["n"] += r["n"]
        for k, v in r["seen"].items():
            tot["seen"][k] = tot["seen"].get(k, 0) + v
        for k, e in r["fails"].items():
            t = tot["fails"].setdefault(k, {"n": 0, "best": None})
            t["n"] += e["n"]
            if t["best"] is None or len(e["best"][0]) < len(t["best"][0]):
                t["best"] = e["best"]
    return tot


CLAUSES = {"evaluates to an equal value": ("equal", "terminates"), "same type at every node": ("type",),
           "zeros keep their sign": ("zero-sign",)}


def roundtrip_part(chk, tier):
    global _ENUM
    _ENUM = L.enumeration(tier)
    n = len(_ENUM)
    # page faults after fork are expensive here, so the quick tier uses few processes with large chunks
    procs = min(chk.jobs, 4) if tier == "quick" else chk.jobs
    step = max(50, -(-n // procs) if tier == "quick" else n // (procs * 3))
    chunks = [(i, min(n, i + step)) for i in range(0, n, step)]
    nseeds, per = (procs, 100) if tier == "quick" else (chk.jobs * 2, 700)
    seeds = [(chk.seed * 1000 + i, per) for i in range(nseeds)]
    gc.collect()
    gc.freeze()
    with multiprocessing.get_context("fork").Pool(procs) as pool:
        r_enum = pool.map_async(enum_worker, chunks, chunksize=1)
        r_hyp = pool.map_async(hyp_worker, seeds, chunksize=1)
        E, H = merge(r_enum.get()), merge(r_hyp.get())
    gc.unfreeze()
    T = merge([E, H])
    chk.evaluations += T["n"]
    chk.extra["roundtrip_cases"] = {"enumeration": E["n"], "hypothesis": H["n"]}
    chk.bounds["round trip"] = (f"deterministic enumeration of {n} values (every leaf, every container kind with 0..3 children, all "
                                f"pairs and triples of container kinds nested) and {nseeds} x {per} hypothesis values (<= 12 leaves)")
    stray = sorted((set(T["seen"]) | {k[0] for k in T["fails"]}) - set(L.ALL_CLASSES))
    chk.ob("coverage/every generated node belongs to a documented type", not stray, "structural", "exhaustive_finite", detail=str(stray))
    for cls in list(L.ALL_CLASSES) + stray:
        for clause, keys in CLAUSES.items():
            if clause == "zeros keep their sign" and not cls.startswith(("float", "complex")):
                continue
            bad = [(k, T["fails"][(cls, k)]) for k in keys if (cls, k) in T["fails"]]
            name = f"roundtrip/{cls}/{clause}"
            if bad:
                k, e = min(bad, key=lambda ke: len(ke[1]["best"][0]))
                msrc, detail, whole = e["best"]
                chk.ob(name, False, "rtc", "bounded",
                       detail=f"{sum(e['n'] for _, e in bad)} failing values; smallest failing sub-value {msrc}: {detail}",
                       replay={"confirmed": True, "input": msrc, "observed": detail,
                               "expected": "hy.eval(hy.read(hy.repr(x))) equals x with the same type at every node"})
            else:
                chk.ob(name, True, "rtc", "bounded", detail=f"{T['seen'].get(cls, 0)} nodes of this class in the generated values")
    missing = [c for c in L.ALL_CLASSES if c not in E["seen"]]
    chk.ob("coverage/the deterministic enumeration exercises every documented type", not missing, "structural", "exhaustive_finite",
           detail=f"never generated: {missing}")
    for cls, cnt in sorted(E["seen"].items())[:6]:
        chk.sample({"class": cls, "nodes": cnt})


def canaries(chk):
    real = REG[tuple]
    REG[tuple] = (REG[list][0], None)
    try:
        r = L.roundtrip((1, 2))
    finally:
        REG[tuple] = real
    chk.canary("a tuple printer that prints list syntax is refuted by the type clause", r is not None)
    real = REG[deque]
    REG[deque] = ((lambda x: "(deque [" + " ".join(map(HR.hy_repr, list(x)[1:])) + "])"), real[1])
    try:
        ms = markers(3)
        text = REG[deque][0](deque(ms))
        dropped = occurrences(text, [m.token for m in ms]) is not None
        r = L.roundtrip(deque([1, 2, 3]))
    finally:
        REG[deque] = real
    chk.canary("a deque printer that drops its first element is refuted by the marker clause and the round trip", dropped and r is not None)
    real = REG[list]
    REG[list] = (real[0], "<cycle>")
    try:
        wrong = "list" in placeholder_table()
    finally:
        REG[list] = real
    chk.canary("a changed list placeholder is seen by the placeholder table clause", wrong)
    r = L.roundtrip(-0.0)
    real = REG[float]
    REG[float] = ((lambda x: repr(abs(x)) if x == 0 else repr(x)), None)
    try:
        r = L.roundtrip(-0.0)
    finally:
        REG[float] = real
    chk.canary("a float printer that drops the sign of zero is refuted by the zero-sign clause", r is not None)


def run(chk):
    chk.level = "other"
    chk.explanation = ("Container printers: complete over child kinds (opaque children), bounded in arity (<= 4); leaf printers, the "
                       "end-to-end round trip (enumeration + hypothesis) and the self-reference shapes are bounded stand-ins.  No "
                       "unbounded proof: the printers are compiled Hy code outside the deductive subset (pyvc not built).")
    G = Group()
    REG[Mk] = ((lambda x: x.token), None)
    try:
        container_contracts(chk, G, 4)
    finally:
        del REG[Mk]
    leaf_contracts(chk, G, 3 if chk.tier == "thorough" else 2)
    self_reference(chk, G)
    G.flush(chk)
    roundtrip_part(chk, chk.tier)
    canaries(chk)
    chk.bounds["children per container"] = 4
    chk.fn("hy/core/hy_repr.hy::hy-repr", "hy/core/hy_repr.hy::_cat", "hy/core/hy_repr.hy::_base-repr",
           "hy/core/hy_repr.hy::printers registered for tuple, dict, str, bytes, bytearray, bool, float, complex, range, slice, "
           "ChainMap, Counter, OrderedDict, defaultdict, Fraction, list, set, frozenset, deque, Keyword")
    chk.trust("hy.read / hy.eval of the printed literal and call forms (C01, C30)", "CPython's literal_eval, float and complex as oracles",
              "opaque marker children stand for arbitrary children: the container printers touch children only through hy-repr")


def replay(path):
    from hv.replay import replay_file
    return replay_file(path)
