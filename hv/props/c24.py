"""C24 f-strings evaluate like the equivalent Python f-string."""
import ast
import gc
import io
import itertools
import multiprocessing as mp
import random
import sys
import warnings

import hv.symx.core as sx
import hy
import hy.compiler as hc
from hy.errors import HySyntaxError
from hy.models import FComponent, FString, String, Symbol
from hy.reader import HyReader
from hy.reader.exceptions import PrematureEndOfInput

from hv.props import _c24_gen as G

META = {
    "engine": "rtc",
    "level": "other",
    "technique": "contract-based differential checking on the real functions: f-string *structures* (literal chunks, fields with "
                 "blanks, = debugging, conversion, format specs holding literal text and nested fields) are generated "
                 "systematically (every conversion x debug x spec kind x expression, every literal-chunk class and pair) and by a "
                 "seeded random composer, rendered as Hy source in three forms (f\"...\", rf\"...\", #[f[...]f]) and as the equivalent "
                 "Python f-string; hy.eval(hy.read(src)) is compared with CPython's eval of the Python source and with an "
                 "independent reference denotation (format(conv(value), spec), debug text as written), in namespaces whose values "
                 "record every __str__/__repr__/__format__ call and the spec received.  Per-function contracts are evaluated on "
                 "the same structures by calling HyReader.read_fcomponent / read_fcomponents_until / read_chars_until, "
                 "FString.__new__, HyASTCompiler.compile_fcomponent / compile_fstring directly.  Malformed fields are enumerated.",
    "text": "eval: same string (or same exception type and message), same recorded calls in the same order.  read_fcomponent: one "
            "component, or two with = (String: blanks + expression text + blanks + = + blanks, then the field); FComponent holds "
            "the form read from the expression text, `expression` = that text verbatim, conversion = the character after ! "
            "(r when = is used without conversion and spec), then the spec components in order; the reader stops right after the "
            "closing brace.  read_fcomponents_until: one String per literal run, the components of each field, in order; "
            "FString and FComponent (in its format spec) join adjacent strings.  compile_fcomponent: FormattedValue(value, conversion = ord(c) or -1, format_spec = "
            "JoinedStr of the spec components or None); compile_fstring: JoinedStr equal to CPython's parse of the Python "
            "rendering (adjacent constants merged, empty constants dropped).  Malformed: empty field, conversion character other "
            "than s r a, conversion longer than one character, ! without a character, trailing junk, missing closing brace, "
            "single closing brace in literal text - each raises HySyntaxError (LexException included) from hy.read/hy.eval.",
    "note": "Level other: the quantifier ranges over all f-strings; every component is a bounded stand-in (systematic enumeration "
            "and seeded sampling), except the one-character conversion codes (all code points) and raw brace scanning (all "
            "strings up to length 6 over a 5-letter alphabet).  t-strings need Python 3.14 and are outside the property.  Trusted: "
            "CPython's f-string parser/evaluator as oracle (3.12+: nested quotes and newlines in fields); the expression "
            "vocabulary's Hy/Python spelling table.",
}

_CASES = []          # (family, form, structure, extra)
MSG = 160


# ------------------------------------------------------------------------------------------------
# observation
# ------------------------------------------------------------------------------------------------
def _outcome(thunk, log):
    try:
        with warnings.catch_warnings():
            warnings.simplefilter("ignore")
            v = thunk()
        if not isinstance(v, str):
            return ("non-str", type(v).__name__), list(log)
        return ("str", v), list(log)
    except HySyntaxError as e:
        return ("HySyntaxError", type(e).__name__, str(getattr(e, "msg", e))[:MSG]), list(log)
    except Exception as e:  # noqa: BLE001
        return ("exc", type(e).__name__, str(e)[:MSG]), list(log)


def hy_eval(src):
    ns, log = G.make_ns()
    return _outcome(lambda: hy.eval(hy.read(src), ns), log)


def py_eval(src):
    ns, log = G.make_ns()
    return _outcome(lambda: eval(compile(src, "<c24-python>", "eval"), ns), log)  # noqa: S307


def den_eval(st, denote=None):
    ns, log = G.make_ns()
    return _outcome(lambda: (denote or G.denote)(st, ns), log)


# ------------------------------------------------------------------------------------------------
# models and trees
# ------------------------------------------------------------------------------------------------
def model_tuple(m):
    """component model -> the tuples of G.expected_components"""
    if type(m) is String:
        return ("S", str(m))
    if type(m) is FComponent:
        return ("F", m.expression, m.conversion, [model_tuple(c) for c in list(m)[1:]])
    return ("?", type(m).__name__, repr(m)[:80])


def value_models_ok(m, exp):
    """the value of every FComponent is the form the real reader reads from the expected expression text"""
    if exp[0] != "F" or type(m) is not FComponent or len(m) < 1:
        return exp[0] != "F"
    want = hy.read(exp[1])
    if not (type(m[0]) is type(want) and m[0] == want):
        return False
    kids = list(m)[1:]
    return len(kids) == len(exp[3]) and all(value_models_ok(k, e) for k, e in zip(kids, exp[3]))


def norm_tree(node):
    """normalisations with no effect on evaluation: adjacent str constants of a JoinedStr merged, empty ones dropped, an
    empty format_spec JoinedStr = no format_spec, a negated numeric literal = the negative constant"""
    class N(ast.NodeTransformer):
        def visit_JoinedStr(self, n):
            self.generic_visit(n)
            vals = []
            for v in n.values:
                if isinstance(v, ast.Constant) and isinstance(v.value, str):
                    if v.value == "":
                        continue
                    if vals and isinstance(vals[-1], ast.Constant):
                        vals[-1] = ast.Constant(value=vals[-1].value + v.value)
                        continue
                    v = ast.Constant(value=v.value)
                vals.append(v)
            n.values = vals
            return n

        def visit_UnaryOp(self, n):
            # Hy reads -7 as one literal; Python parses a sign applied to a literal
            self.generic_visit(n)
            if isinstance(n.op, ast.USub) and isinstance(n.operand, ast.Constant) and type(n.operand.value) in (int, float, complex):
                return ast.Constant(value=-n.operand.value)
            return n

        def visit_FormattedValue(self, n):
            self.generic_visit(n)
            if isinstance(n.format_spec, ast.JoinedStr) and not n.format_spec.values:
                n.format_spec = None
            return n
    return N().visit(node)


def dump(node):
    return ast.dump(norm_tree(node))


def build_tree(parts):
    """the JoinedStr the Python language reference prescribes for a structure"""
    vals = []
    for p in parts:
        if isinstance(p, G.Field):
            conv = p.conv
            if p.dbg is not None:
                vals.append(ast.Constant(value=G.debug_text(p)))
                if conv is None and p.spec is None:
                    conv = "r"
            spec = build_tree(p.spec) if p.spec else None
            vals.append(ast.FormattedValue(value=ast.parse(p.expr.py, mode="eval").body, conversion=ord(conv) if conv else -1,
                                           format_spec=spec))
        else:
            vals.append(ast.Constant(value=p.value))
    return ast.JoinedStr(values=vals)


def new_reader(text):
    r = HyReader()
    r._set_source(io.StringIO(text), "<c24>")
    return r


def rest_of(r):
    out = []
    while True:
        c = r.getc()
        if not c:
            return "".join(out)
        out.append(c)


TERM = "\x1f"


def closing(c):
    return 1 if c == TERM else 0


# ------------------------------------------------------------------------------------------------
# one case
# ------------------------------------------------------------------------------------------------
class Acc:
    def __init__(self):
        self.g = {}

    def add(self, name, ok, inp=None, observed=None, expected=None, python=None):
        e = self.g.setdefault(name, [0, 0, None])
        e[0] += 1
        if not ok:
            e[1] += 1
            if e[2] is None or len(str(inp)) < len(str(e[2]["input"])):
                e[2] = {"input": inp, "observed": _short(observed), "expected": _short(expected), "python": python}


def _short(x):
    s = x if isinstance(x, str) else repr(x)
    return s if len(s) < 700 else s[:700] + "..."


def eval_clauses(acc, fam, form, st, src, names):
    hy_o, hy_log = hy_eval(src)
    den_o, den_log = den_eval(st)
    pysrc = None
    ok_str, ok_log, exp = hy_o == den_o, hy_log == den_log, den_o
    if G.py_expressible(st):
        pysrc = G.py_src(st, form)
        py_o, py_log = py_eval(pysrc)
        acc.add("oracle/CPython accepts the Python rendering of every generated structure", not (py_o[0] == "exc" and py_o[1] == "SyntaxError"),
                inp=pysrc, observed=py_o)
        acc.add("oracle/the reference denotation agrees with CPython on every generated structure", (py_o, py_log) == (den_o, den_log),
                inp=pysrc, observed=(den_o, den_log), expected=(py_o, py_log))
        ok_str, ok_log, exp = ok_str and hy_o == py_o, ok_log and hy_log == py_log, py_o
    for n in names:
        acc.add(n, ok_str and (ok_log or fam != "spec-named"), inp=src, observed=(hy_o, hy_log) if fam == "spec-named" else hy_o,
                expected=exp, python=pysrc)
    if fam == "spec-named":
        return hy_o[0] == "str"
    if any(f.expr.kind == "do" for f in G.all_fields(st)):
        # docs/semantics.rst: the evaluation order of the children of a Sequence is unspecified; a form that compiles to
        # statements runs them before the whole f-string
        # (so when another field raises, the hoisted statements have already run: no claim then)
        key = lambda l: sorted(map(repr, l))
        if hy_o[0] == "str":
            acc.add(f"effects/{form}/fields whose form compiles to statements: the same calls with the same format spec (order unspecified)",
                    key(hy_log) == key(den_log), inp=src, observed=hy_log, expected=den_log, python=pysrc)
    else:
        acc.add(f"effects/{form}/the same __str__ __repr__ __format__ and function calls, with the same format spec, in the same order",
                ok_log, inp=src, observed=hy_log, expected=den_log, python=pysrc)
    if hy_o[0] != "str":
        acc.add(f"eval/{form}/exception parity (same exception type and message as Python)", ok_str, inp=src, observed=hy_o, expected=exp,
                python=pysrc)
    return hy_o[0] == "str"


def reader_clauses(acc, form, st, src):
    prefix = "" if form == "quoted" else "r"
    pname = "escapes processed" if prefix == "" else "raw"
    # (1) hy.read: FString with adjacent strings joined
    try:
        m = hy.read(src)
    except Exception as e:  # noqa: BLE001
        acc.add(f"hy.read/{form}/the f-string reads as an FString", False, inp=src, observed=f"{type(e).__name__}: {e}")
        return None
    want = G.expected_components(st, join=True)
    got = [model_tuple(c) for c in m] if type(m) is FString else None
    acc.add(f"hy.read/{form}/FString holds the components in order, adjacent strings joined", got == want, inp=src, observed=got, expected=want)
    if got == want:
        acc.add(f"hy.read/{form}/every field value is the form read from the expression text",
                all(value_models_ok(c, e) for c, e in zip(m, want)), inp=src, observed=repr(m)[:300])
    acc.add(f"hy.read/{form}/brackets attribute", m.brackets == (None if form != "bracket" else src[2:src.index("[", 2)]), inp=src,
            observed=getattr(m, "brackets", "?"))
    # (2) read_fcomponents_until called directly with a closing callback for a terminator that never occurs in the body
    body = G.body_hy(st, form)
    r = new_reader(body + TERM + "tail")
    try:
        comps = r.read_fcomponents_until(closing, prefix, "f")
        got = [model_tuple(c) for c in comps]
        rest = rest_of(r)
    except Exception as e:  # noqa: BLE001
        got, rest = f"{type(e).__name__}: {e}", None
    want = G.expected_components(st)
    acc.add(f"read_fcomponents_until/{pname}/one String per literal run and the components of each field, in order", got == want,
            inp=body, observed=got, expected=want)
    acc.add(f"read_fcomponents_until/{pname}/stops right after the closing delimiter", rest == "tail", inp=body, observed=rest, expected="tail")
    # (3) read_fcomponent called directly at the start of every top-level field
    for f in G.fields_of(st):
        text = G._field_hy(f, form)
        kind = G.spec_kind(f)
        r = new_reader(text[1:] + "}tail{")
        try:
            comps = list(r.read_fcomponent(prefix, "f"))
            rest = rest_of(r)
        except Exception as e:  # noqa: BLE001
            acc.add(f"read_fcomponent/returns one component, or two with =/spec={kind}", False, inp=text, observed=f"{type(e).__name__}: {e}")
            continue
        exp = G.expected_field_components(f)
        base = "read_fcomponent/"
        acc.add(f"{base}returns one component, or two with =/spec={kind}", len(comps) == len(exp) and type(comps[-1]) is FComponent
                and all(type(c) is String for c in comps[:-1]), inp=text, observed=[type(c).__name__ for c in comps], expected=len(exp))
        if len(comps) != len(exp) or type(comps[-1]) is not FComponent:
            continue
        fc, efc = comps[-1], exp[-1]
        if f.dbg is not None:
            acc.add(f"{base}debug text is blanks + expression text + blanks + = + blanks/spec={kind}", str(comps[0]) == exp[0][1], inp=text,
                    observed=str(comps[0]), expected=exp[0][1])
        acc.add(f"{base}expression attribute is the text of the form as written/spec={kind}", fc.expression == f.expr.hy, inp=text,
                observed=fc.expression, expected=f.expr.hy)
        want_model = hy.read(f.expr.hy)
        acc.add(f"{base}value is the form read from the expression text/spec={kind}", len(fc) >= 1 and type(fc[0]) is type(want_model)
                and fc[0] == want_model, inp=text, observed=repr(fc[0])[:200] if len(fc) else "no value", expected=repr(want_model)[:200])
        acc.add(f"{base}conversion is the character after ! (r for = without conversion and spec)/spec={kind}", fc.conversion == efc[2],
                inp=text, observed=fc.conversion, expected=efc[2])
        got_spec = [model_tuple(c) for c in list(fc)[1:]]
        acc.add(f"{base}format-spec components in order/spec={kind}", got_spec == efc[3], inp=text, observed=got_spec, expected=efc[3])
        acc.add(f"{base}stops right after the closing brace/spec={kind}", rest == "}tail{", inp=text, observed=rest, expected="}tail{")
        acc.add(f"{base}is_tstring is false in f mode/spec={kind}", fc.is_tstring is False, inp=text, observed=fc.is_tstring)
    return m


def compile_clauses(acc, form, st, src, m):
    comp = sx.new_compiler("hv_c24_mod")
    try:
        res = comp.compile_fstring(m)
    except Exception as e:  # noqa: BLE001
        acc.add(f"compile_fstring/{form}/JoinedStr equals the tree built from the structure", False, inp=src, observed=f"{type(e).__name__}: {e}")
        return
    hoists = any(f.expr.kind == "do" for f in G.all_fields(st))
    acc.add("compile_fstring/the result is a JoinedStr expression; statements only from fields whose form needs them",
            isinstance(res.expr, ast.JoinedStr) and (bool(res.stmts) == hoists), inp=src, observed=(type(res.expr).__name__, len(res.stmts)))
    got = dump(res.expr)
    want = dump(build_tree(st))
    if hoists:
        return          # the value expression of a hoisting form is not the Python spelling's expression
    acc.add(f"compile_fstring/{form}/JoinedStr equals the tree built from the structure", got == want, inp=src, observed=got, expected=want)
    if G.py_expressible(st) and not G.has_nested_debug(st):
        pysrc = G.py_src(st, form)
        try:
            cp = dump(ast.parse(pysrc, mode="eval").body)
        except SyntaxError as e:
            cp = f"SyntaxError: {e}"
        acc.add(f"compile_fstring/{form}/JoinedStr equals CPython's parse of the Python rendering", got == cp, inp=src, observed=got,
                expected=cp, python=pysrc)
    # top-level strings: FString.__new__ has joined them, so no two adjacent Constants
    vals = res.expr.values
    acc.add("compile_fstring/no two adjacent string constants at the top level (FString joined them)",
            not any(isinstance(a, ast.Constant) and isinstance(b, ast.Constant) for a, b in zip(vals, vals[1:])), inp=src, observed=got)
    # compile_fcomponent on every top-level field
    fcs = [c for c in m if type(c) is FComponent]
    for fc, f in zip(fcs, G.fields_of(st)):
        try:
            r = comp.compile_fcomponent(fc)
            node = r.expr
        except Exception as e:  # noqa: BLE001
            acc.add(f"compile_fcomponent/FormattedValue conversion code/conv={f.conv or 'none'}", False, inp=G._field_hy(f, form),
                    observed=f"{type(e).__name__}: {e}")
            continue
        text = G._field_hy(f, form)
        conv = f.conv or ("r" if f.dbg is not None and f.spec is None else None)
        acc.add(f"compile_fcomponent/FormattedValue conversion code/conv={f.conv or 'none'}", isinstance(node, ast.FormattedValue)
                and node.conversion == (ord(conv) if conv else -1), inp=text, observed=getattr(node, "conversion", type(node).__name__),
                expected=ord(conv) if conv else -1)
        if not isinstance(node, ast.FormattedValue):
            continue
        kind = G.spec_kind(f)
        exp_spec = dump(build_tree(f.spec)) if f.spec else None
        got_spec = dump(node.format_spec) if node.format_spec is not None else None
        shape_ok = (node.format_spec is None) if not f.spec else isinstance(node.format_spec, ast.JoinedStr)
        acc.add(f"compile_fcomponent/format_spec is None or a JoinedStr of the spec components, nested fields nested/spec={kind}",
                shape_ok and got_spec == exp_spec, inp=text, observed=got_spec, expected=exp_spec)
        acc.add(f"compile_fcomponent/value is the compiled form/spec={kind}", dump(node.value) == dump(ast.parse(f.expr.py, mode="eval").body),
                inp=text, observed=ast.dump(node.value), expected=f.expr.py)


def run_case(acc, fam, form, st, extra):
    try:
        src = G.hy_src(st, form, **(extra or {}))
    except G.Unrenderable:
        return False
    if fam == "spec-named":
        # a named escape in the literal text of a format spec: its own obligations
        names = [f"eval/{form}/format-spec/named escape in the literal text of a format spec"]
        eval_clauses(acc, fam, form, st, src, names)
        return True
    names = []
    sigs = sorted({G.signature(f) for f in G.fields_of(st)})
    if fam in ("field", "random"):
        names += [f"eval/{form}/field/{s}" for s in sigs]
    if fam in ("literal", "random"):
        names += [f"eval/{form}/literal/{c}" for c in G.lit_classes(st)]
    if fam == "literal" and not st:
        names.append(f"eval/{form}/literal/plain")
    if fam == "random":
        names.append(f"eval/{form}/random composition of literal text and several fields")
    if fam == "variant":
        names.append(f"eval/{form}/delimiter and prefix variants")
    if fam == "errors":
        names.append(f"eval/{form}/exception parity (same exception type and message as Python)")
    evaluated = eval_clauses(acc, fam, form, st, src, names)
    if fam == "errors" and not evaluated:
        m = reader_clauses(acc, form, st, src)
        return True
    m = reader_clauses(acc, form, st, src)
    if m is not None and type(m) is FString:
        compile_clauses(acc, form, st, src, m)
    return True


def _work(rng_):
    lo, hi = rng_
    acc = Acc()
    n = 0
    for fam, form, st, extra in _CASES[lo:hi]:
        if run_case(acc, fam, form, st, extra):
            n += 1
    return n, acc.g


# ------------------------------------------------------------------------------------------------
# case lists
# ------------------------------------------------------------------------------------------------
def error_structures():
    F, E, C = G.Field, G.Expr, G.Chunk
    return [
        [F(E("x"), conv="r", spec=[C("abc")])],                       # ValueError: invalid spec for str
        [F(E("undefined_name"))],                                     # NameError
        [F(E("w"), spec=[F(E("x"))])],                                # ValueError from int.__format__
        [F(E("[w p]", "[w, p]", "display"), spec=[C(">9")])],         # TypeError
        [G.Lit([C("a")]), F(E("(f x)", "f(x)", "call"), conv="s", spec=[C("5.2x")])],
        [F(E("x"), spec=[F(E("undefined_name"), sm=" ", dbg="")])],
        [F(E("(/ w 0)", "(w / 0)", "operator"), sm=" ", dbg=" ")],    # ZeroDivisionError
        [F(E("x.nope"), conv="a")],                                    # AttributeError
    ]


def build_cases(tier, seed):
    full = tier == "thorough"
    cases = []
    k = 0
    for f in G.systematic_fields(full):
        k += 1
        ctxs = list(G.contexts(f, k))
        ctxs = [ctxs[0], ctxs[1 + k % 3]] if k % 2 else [ctxs[1 + k % 3]]
        for form in G.FORMS:
            for cname, st in ctxs:
                cases.append(("field", form, st, None))
    for f in G.statement_order_fields():
        for form in G.FORMS:
            cases.append(("field", form, [f], None))
            cases.append(("field", form, [G.Field(G.Expr("(do (f 2) y)", "(f(2), y)[1]", "do", v=True)), f, G.Lit([G.Chunk("!")])], None))
    for st in G.literal_structures(full):
        for form in G.FORMS:
            cases.append(("literal", form, st, None))
    r = random.Random(seed * 1000003 + 24)
    nrand = 800 if not full else 40000
    for i in range(nrand):
        st = G.random_structure(r, 5 if i % 4 else 8)
        for form in G.FORMS:
            cases.append(("random", form, st, None))
    # delimiter / prefix variants
    for i in range(60 if not full else 600):
        st = G.random_structure(r, 4)
        cases.append(("variant", "bracket", st, {"delim": "f-x"}))
        cases.append(("variant", "bracket", st, {"delim": "f-"}))
        cases.append(("variant", "bracket", st, {"lead_newline": True}))
        cases.append(("variant", "raw", st, {"lead_newline": True}))       # spelled fr"..."
        cases.append(("variant", "quoted", st, None))
    for st in error_structures():
        for form in G.FORMS:
            cases.append(("errors", form, st, None))
    # a named escape in a format spec (own obligations)
    for c in G.SPEC["named"]:
        for conv in G.CONVS:
            for tail in ([], [G.Chunk(">9")] if conv else [G.Chunk("abc")], [G.Field(G.Expr("w"))]):
                st = [G.Field(G.Expr("x"), conv=conv, spec=[c] + tail)]
                for form in G.FORMS:
                    cases.append(("spec-named", form, st, None))
    return cases


# ------------------------------------------------------------------------------------------------
# malformed fields
# ------------------------------------------------------------------------------------------------
def observe_malformed(src):
    ns, log = G.make_ns()
    try:
        with warnings.catch_warnings():
            warnings.simplefilter("ignore")
            forms = list(hy.read_many(src))
            out = [hy.eval(m, ns) for m in forms]
        return "evaluated to " + repr(out)[:120]
    except HySyntaxError as e:
        return "HySyntaxError"
    except Exception as e:  # noqa: BLE001
        return f"{type(e).__name__}: {str(e)[:120]}"


def wrap(form, body):
    return {"quoted": 'f"' + body + '"', "raw": 'rf"' + body + '"', "bracket": "#[f[" + body + "]f]"}[form]


def _conv_work(rng_):
    """compile_fcomponent on FComponent([x], conversion=chr(cp)) for every code point of the range"""
    lo, hi, stride = rng_
    comp = sx.new_compiler("hv_c24_mod")
    bad, n = None, 0
    for cp in range(lo, hi, stride):
        ch = chr(cp)
        if ch in "sra":
            continue
        n += 1
        try:
            comp.compile_fcomponent(FComponent([Symbol("x")], conversion=ch))
            if bad is None:
                bad = (cp, "compiled")
        except HySyntaxError:
            pass
        except Exception as e:  # noqa: BLE001
            if bad is None:
                bad = (cp, f"{type(e).__name__}: {e}")
    return n, bad


def malformed_part(chk, conv_results):
    # (conv_results: all code points in the thorough tier; the BMP and a 1-in-17 sample of the other planes in the quick tier)
    acc = Acc()
    ctx_field = {"top-level": "%s", "amid text and fields": "ab%sc{y}", "nested in a format spec": "{y :>%s}",
                 "nested two levels": "{y :{w :%s}}"}
    n = 0
    for cls, name, text in G.malformed_fields():
        for cname, pat in ctx_field.items():
            for form in G.FORMS:
                if "\\N" in text and form != "quoted":
                    continue
                src = wrap(form, pat % text)
                got = observe_malformed(src)
                n += 1
                chk.case(("malformed", src))
                acc.add(f"malformed/{cls}/{cname}/{form}", got == "HySyntaxError", inp=src, observed=got, expected="HySyntaxError")
    for cls, name, text in G.malformed_unclosed():
        for cname, pat in (("top-level", "%s"), ("amid text and fields", "ab{y}%s")):
            for form in G.FORMS:
                src = wrap(form, pat % text)
                got = observe_malformed(src)
                n += 1
                chk.case(("malformed", src))
                acc.add(f"malformed/{cls}/{cname}/{form}", got == "HySyntaxError", inp=src, observed=got, expected="HySyntaxError")
    for cls, name, text in G.malformed_single_close():
        for cname, pat in (("top-level", "%s"), ("amid text and fields", "ab{y}c%s{y}")):
            for form in G.FORMS:
                if "\\N" in text and form != "quoted":
                    continue
                src = wrap(form, pat % text)
                got = observe_malformed(src)
                n += 1
                chk.case(("malformed", src))
                acc.add(f"malformed/{cls}/{cname}/{form}", got == "HySyntaxError", inp=src, observed=got, expected="HySyntaxError")
    # the Python spelling of the same malformations is a SyntaxError in CPython (sanity of the enumeration, where the
    # spelling is shared: no blank needed before ! in Python)
    shared = 0
    for cls, name, text in G.malformed_fields() + G.malformed_single_close():
        if cls in ("single-closing-brace", "empty-field", "trailing-junk", "bang-without-character") and "#_" not in text and ";" not in text \
                and "(f" not in text and ")" not in text and "]" not in text and "," not in text:
            try:
                compile('f"' + text + '"', "<c24>", "eval")
                bad = True
            except SyntaxError:
                bad = False
            shared += 1
            acc.add("malformed/enumeration sanity: CPython rejects the same text where the spelling is shared", not bad, inp=text,
                    observed="CPython accepts it")
    # every one-character conversion, model level (compile_fcomponent called directly) and through the reader for ASCII
    comp = sx.new_compiler("hv_c24_mod")
    nchars = sum(r[0] for r in conv_results)
    bad = next((r[1] for r in conv_results if r[1]), None)
    chk.evaluations += nchars
    chk.ob("malformed/conversion/compile_fcomponent rejects every one-character conversion other than s r a", bad is None, "rtc",
           "exhaustive_finite" if chk.tier == "thorough" else "bounded", detail=f"{nchars} code points" if bad is None else f"U+{bad[0]:04X}: {bad[1]}",
           replay={"confirmed": True, "input": f"FComponent([x], conversion=chr({bad[0]}))", "observed": bad[1]} if bad else None)
    for conv in ("sr", "", "rr", 0, 114, "ſ", "ｒ", "S", "R", "A", True, b"r"):
        try:
            comp.compile_fcomponent(FComponent([Symbol("x")], conversion=conv))
            got = "compiled"
        except HySyntaxError:
            got = "HySyntaxError"
        except Exception as e:  # noqa: BLE001
            got = f"{type(e).__name__}: {e}"
        # "" is falsy: treated as no conversion by `if fcomponent.conversion`; the reader never produces it
        if conv == "":
            continue
        acc.add("malformed/conversion/compile_fcomponent rejects conversions that are not one of the strings s r a", got == "HySyntaxError",
                inp=f"FComponent([x], conversion={conv!r})", observed=got, expected="HySyntaxError")
    bad = None
    for cp in list(range(1, 128)) + [0xE9, 0x17F, 0xFF52, 0x2022, 0x1F600]:
        ch = chr(cp)
        if ch in "sra":
            continue
        for tail in ("}", " :>9}"):
            src = 'f"{x !' + ch + tail + '"'
            got = observe_malformed(src)
            chk.case(("malformed", src))
            if got != "HySyntaxError" and bad is None:
                bad = (src, got)
    chk.ob("malformed/conversion/reader and compiler reject {x !c} for every ASCII character c other than s r a", bad is None, "rtc",
           "exhaustive_finite", detail="127 ASCII characters and 5 others, with and without a format spec" if bad is None else f"{bad[0]!r}: {bad[1]}",
           replay={"confirmed": True, "input": bad[0], "observed": bad[1], "expected": "HySyntaxError"} if bad else None)
    # model level: an FComponent without a value
    for m, nm in ((FString([FComponent([])]), "FString([FComponent([])])"), (FComponent([]), "FComponent([])"),
                  (FString([FComponent([], conversion="r")]), "FString([FComponent([], conversion='r')])")):
        try:
            hy.eval(m, G.make_ns()[0])
            got = "evaluated"
        except HySyntaxError:
            got = "HySyntaxError"
        except Exception as e:  # noqa: BLE001
            got = f"{type(e).__name__}: {e}"
        acc.add("malformed/empty-field/model level: an FComponent without a value", got == "HySyntaxError", inp=nm, observed=got,
                expected="HySyntaxError")
    chk.extra["malformed_sources"] = n
    chk.bounds["malformed fields"] = (f"{len(G.malformed_fields())} malformed field texts x 4 contexts x 3 forms, "
                                      f"{len(G.malformed_unclosed())} unclosed fields and {len(G.malformed_single_close())} single-brace texts "
                                      f"x 2 contexts x 3 forms; conversion characters at model level: {nchars} code points ({'all' if chk.tier == 'thorough' else 'the BMP and every 17th beyond'})")
    return acc


# ------------------------------------------------------------------------------------------------
# small-scope exhaustive contracts
# ------------------------------------------------------------------------------------------------
def raw_scan_spec(text):
    """reference for read_chars_until(closing=TERM, prefix "r", fstring_mode "f") on `text`: (chars, closed) / error name"""
    out, i = [], 0
    while True:
        if i >= len(text):
            return "PrematureEndOfInput"
        c = text[i]
        i += 1
        if c == TERM:
            return ("".join(out), 1, text[i:])
        if c == "{":
            if i < len(text) and text[i] == "{":
                out.append("{")
                i += 1
            else:
                return ("".join(out), 0, text[i:])
        elif c == "}":
            if i < len(text) and text[i] == "}":
                out.append("}")
                i += 1
            elif i >= len(text):
                return "PrematureEndOfInput"
            else:
                return "SyntaxError"
        else:
            out.append(c)


def small_scope(chk, tier):
    acc = Acc()
    alpha = ["a", "{", "}", "\\", "N", TERM]
    maxlen = 6 if tier == "thorough" else 5
    n = 0
    for ln in range(0, maxlen + 1):
        for cs in itertools.product(alpha, repeat=ln):
            text = "".join(cs)
            r = new_reader(text)
            try:
                s, closed = r.read_chars_until(closing, "r", "f")
                got = (s, closed, rest_of(r))
            except PrematureEndOfInput:
                got = "PrematureEndOfInput"
            except SyntaxError:
                got = "SyntaxError"
            except Exception as e:  # noqa: BLE001
                got = f"{type(e).__name__}: {e}"
            want = raw_scan_spec(text)
            n += 1
            cls = ("stops at a single opening brace, doubled braces are literal" if isinstance(want, tuple) else
                   "end of input is PrematureEndOfInput" if want == "PrematureEndOfInput" else "a single closing brace is a syntax error")
            acc.add(f"read_chars_until/raw/{cls}", got == want, inp=text, observed=got, expected=want)
    chk.evaluations += n
    chk.bounds["read_chars_until"] = f"all {n} strings of length <= {maxlen} over {alpha!r}, raw mode"
    # FString.__new__: adjacent strings joined, other components kept, by identity and in order
    m = 0
    for ln in range(0, 7):
        for shape in itertools.product("SF", repeat=ln):
            parts = [String(f"s{i}") if k == "S" else FComponent([Symbol(f"v{i}")]) for i, k in enumerate(shape)]
            fs = FString(parts)
            want, cur = [], None
            for p in parts:
                if type(p) is String:
                    cur = (cur or "") + str(p)
                else:
                    if cur is not None:
                        want.append(cur)
                        cur = None
                    want.append(p)
            if cur is not None:
                want.append(cur)
            got = list(fs)
            ok = len(got) == len(want) and all((type(g) is String and str(g) == w) if isinstance(w, str) else g is w for g, w in zip(got, want))
            m += 1
            acc.add("FString.__new__/adjacent strings are joined, fields kept by identity and in order", ok, inp="".join(shape),
                    observed=repr(got)[:200])
    chk.evaluations += m
    return acc, n + m


# ------------------------------------------------------------------------------------------------
def flush(chk, acc, backend, kind, declared=()):
    for name in declared:
        acc.g.setdefault(name, [0, 0, None])
    for name in sorted(acc.g):
        cnt, bad, first = acc.g[name]
        if cnt == 0:
            chk.ob(name, False, backend, kind, detail="no generated case exercised this class (vacuous)")
        elif bad == 0:
            chk.ob(name, True, backend, kind, detail=f"{cnt} cases")
        else:
            chk.ob(name, False, backend, kind,
                   detail=f"{bad} of {cnt} cases fail; shortest: {first['input']!r} -> {first['observed']} (expected {first['expected']})"
                          + (f" [python: {first['python']!r}]" if first.get("python") else ""),
                   witness=first, replay={"confirmed": True, **first})


def declared_names():
    out = []
    for form in G.FORMS:
        out += [f"eval/{form}/field/{s}" for s in G.ALL_SIGNATURES]
        out += [f"eval/{form}/literal/{c}" for c in G.LIT_CLASSES]
        out += [f"eval/{form}/random composition of literal text and several fields", f"eval/{form}/delimiter and prefix variants",
                f"eval/{form}/exception parity (same exception type and message as Python)",
                f"eval/{form}/format-spec/named escape in the literal text of a format spec"]
    return out


def merge_into(total, g):
    for k, (cnt, bad, first) in g.items():
        e = total.g.setdefault(k, [0, 0, None])
        e[0] += cnt
        e[1] += bad
        if first is not None and (e[2] is None or len(str(first["input"])) < len(str(e[2]["input"]))):
            e[2] = first


def canaries(chk):
    # (1) a reference that drops the blanks of the debug text must be refuted by the differential
    def bad_denote(st, ns):
        real = G.debug_text
        G.debug_text = lambda f: f.expr.hy + "="
        try:
            return G.denote(st, ns)
        finally:
            G.debug_text = real
    # (judged against CPython, so that the canary does not depend on the code under test)
    st = [G.Field(G.Expr("x"), sb=" ", sm=" ", dbg=" ")]
    cp = py_eval(G.py_src(st, "quoted"))
    refuted = cp[0] != den_eval(st, bad_denote)[0] and cp == den_eval(st)
    chk.canary("a reference denotation whose = text drops the surrounding blanks is refuted", refuted)
    # (2) a compile_fcomponent that compiles !a as !r must be refuted by the eval clause and by the shape clause
    real = hc._model_compilers[FComponent]

    def wrong(self, fc):
        if fc.conversion == "a":
            fc = FComponent(list(fc), conversion="r", expression=fc.expression)
        return real(self, fc)
    hc._model_compilers[FComponent] = wrong
    try:
        acc = Acc()
        st = [G.Field(G.Expr("x"), conv="a")]
        run_case(acc, "field", "quoted", st, None)
        refuted = acc.g.get("eval/quoted/field/conv=a/debug=no/spec=none", [0, 0])[1] == 1
    finally:
        hc._model_compilers[FComponent] = real
    chk.canary("a compiler that treats !a as !r is refuted by the evaluation clause", refuted)
    # (3) a read_fcomponent that forgets the blanks before the expression in the debug text
    real_rf = HyReader.read_fcomponent

    def wrong_rf(self, prefix, mode):
        out = real_rf(self, prefix, mode)
        if len(out) == 2:
            out[0] = String(str(out[0]).lstrip())
        return out
    HyReader.read_fcomponent = wrong_rf
    try:
        acc = Acc()
        run_case(acc, "field", "quoted", [G.Field(G.Expr("x"), sb=" ", sm=" ", dbg=" ")], None)
        refuted = (acc.g.get("eval/quoted/field/conv=none/debug=yes/spec=none", [0, 0])[1] == 1
                   and acc.g.get("read_fcomponent/debug text is blanks + expression text + blanks + = + blanks/spec=none", [0, 0])[1] == 1)
    finally:
        HyReader.read_fcomponent = real_rf
    chk.canary("a reader that drops the blanks before the expression from the = text is refuted (eval and read_fcomponent clauses)", refuted)
    # (4) a compiler that lets every conversion character through must be caught by the malformed-field harness
    def lenient(self, fc):
        try:
            return real(self, fc)
        except HySyntaxError:
            return real(self, FComponent(list(fc), conversion=None, expression=fc.expression))
    hc._model_compilers[FComponent] = lenient
    try:
        got = observe_malformed('f"{x !z}"')
    finally:
        hc._model_compilers[FComponent] = real
    chk.canary("a compiler that accepts the conversion character z is caught by the malformed-field harness", got != "HySyntaxError")


def run(chk):
    chk.level = "other"
    chk.explanation = ("Differential and per-function contracts over generated f-string structures; the domain (all f-strings) is "
                       "infinite and the reader/compiler functions are outside the deductive subset, so every component is a bounded "
                       "stand-in except two finite enumerations (conversion code points, raw brace scanning up to a length).")
    assert sys.version_info >= (3, 12), "the CPython oracle needs PEP 701 f-strings (nested quotes, newlines in fields)"
    global _CASES
    _CASES = build_cases(chk.tier, chk.seed)
    n = len(_CASES)
    step = max(50, n // (min(chk.jobs, 16) * 4))
    tasks = [(i, min(n, i + step)) for i in range(0, n, step)]
    top = sys.maxunicode + 1
    cstep = top // 32 + 1
    # quick: the whole Basic Multilingual Plane and every 17th code point beyond it; thorough: every code point
    full_conv = chk.tier == "thorough"
    ctasks = [(i, min(top, i + cstep), 1) for i in range(0, top, cstep)] if full_conv else \
             [(i, i + 0x2000, 1) for i in range(0, 0x10000, 0x2000)] + [(i, min(top, i + 0x20000), 17) for i in range(0x10000, top, 0x20000)]
    procs = min(chk.jobs, 16) if chk.tier == "thorough" else min(chk.jobs, 8)       # page faults after fork are expensive
    if chk.jobs > 1:
        gc.collect()
        gc.freeze()
        with mp.get_context("fork").Pool(procs) as pool:
            r1 = pool.map_async(_work, tasks, chunksize=1)
            r2 = pool.map_async(_conv_work, ctasks, chunksize=1)
            results, conv_results = r1.get(), r2.get()
        gc.unfreeze()
    else:
        results = [_work(t) for t in tasks]
        conv_results = [_conv_work(t) for t in ctasks]
    total = Acc()
    ncases = 0
    for k, g in results:
        ncases += k
        merge_into(total, g)
    chk.evaluations += ncases
    flush(chk, total, "cpython-oracle", "bounded", declared_names())
    m_acc = malformed_part(chk, conv_results)
    flush(chk, m_acc, "rtc", "bounded")
    s_acc, ns = small_scope(chk, chk.tier)
    flush(chk, s_acc, "rtc", "exhaustive_finite")
    canaries(chk)
    for fam, form, st, extra in _CASES[:: max(1, n // 6)][:6]:
        try:
            chk.sample({"family": fam, "hy": G.hy_src(st, form, **(extra or {})), "python": G.py_src(st, form)})
        except G.Unrenderable:
            pass
    chk.extra["structures_rendered"] = ncases
    chk.bounds["generated structures"] = (f"{n} (structure, form) pairs, {ncases} renderable: systematic fields "
                                          f"({len(G.CONVS)} conversions x debug x {len(G.SPEC_KINDS)} spec kinds x {len(G.EXPRS)} expressions x "
                                          f"{'27 of 54' if chk.tier == 'thorough' else '1 of 54'} blank layouts x 1-2 of 4 contexts), literal chunks and pairs, "
                                          f"seeded random compositions (seed {chk.seed})")
    chk.fn("hy/reader/hy_reader.py::HyReader.read_fcomponent", "hy/reader/hy_reader.py::HyReader.read_fcomponents_until",
           "hy/reader/hy_reader.py::HyReader.read_chars_until", "hy/reader/hy_reader.py::HyReader.read_string_until",
           "hy/reader/hy_reader.py::HyReader.prefixed_string", "hy/reader/hy_reader.py::HyReader.bracketed_string",
           "hy/compiler.py::HyASTCompiler.compile_fcomponent", "hy/compiler.py::HyASTCompiler.compile_fstring",
           "hy/models.py::FString.__new__", "hy/models.py::FComponent.__new__")
    chk.trust("CPython >= 3.12 f-string parser and evaluator as the oracle of the Python rendering",
              "the Hy/Python spelling table of the expression vocabulary (hv/props/_c24_gen.py expressions())",
              "hy.eval of a model = compile + exec (C30)")


def replay(path):
    import json
    d = json.load(open(path))
    rp = d.get("replay") or {}
    print(json.dumps({k: d.get(k) for k in ("property", "obligation", "detail")}, indent=1, default=repr))
    src = rp.get("input")
    if isinstance(src, str) and (src.startswith(("f\"", "rf\"", "fr\"", "#[f"))):
        print("hy source:", repr(src))
        print("hy.eval(hy.read(src)) now:", hy_eval(src))
        if rp.get("python"):
            print("python source:", repr(rp["python"]))
            print("CPython now:", py_eval(rp["python"]))
        print("as a malformed-field observation:", observe_malformed(src))
        return 1
    return 1 if rp.get("confirmed") else 2
