"""C13 compiling the same source is deterministic across processes (no dependence on set/hash order)."""
from hv import core  # noqa: E402
import ast
import glob
import multiprocessing as mp
import os
import subprocess
import sys

import hv.symx.core  # noqa: F401
import hy.compiler as hc
import hy.core.result_macros as rm
import hy.scoping as hs
from hv import catalog, structural
from hv.core import REPO
from hv.props import _outervar as ov
from hv.symx import core as sx
from hv.symx.core import E, S, Tok, Keyword, List

META = {
    "engine": "symx",
    "level": "proof",
    "technique": "contract-based: determinism postcondition `the emission is a function of the form and of ordered inputs only`: "
                 "every rule of the catalogue and ResolveOuterVars.visit_OuterVar / ScopeGen.finalize are executed with `set` "
                 "bound, in hy.scoping / hy.compiler / hy.core.result_macros, to a subclass whose iteration order is scripted "
                 "(ascending vs descending: two of the orders a hash seed can produce) and must emit identical ASTs; a "
                 "dataflow scan lists every place where a set or dict-key view is turned into a sequence",
    "text": "Hash-seed dependence can enter compilation only through the iteration order of sets (strings are the only hashed "
            "keys; dicts are insertion-ordered). With that order made adversarial, visit_OuterVar on every enclosing-scope "
            "chain of depth <= 3 (<= 4 thorough) with up to three declared names, ScopeGen.finalize, and every rule of the "
            "catalogue (all child-shape vectors, with sub-forms that assign several names so that the leak sets have more than "
            "one element) produce identical emissions under both orders. Identical ASTs give identical bytecode (CPython's "
            "code generator is deterministic for a given AST: trusted, cross-checked by compiling sample programs in "
            "subprocesses under different PYTHONHASHSEEDs and comparing ast.dump and marshalled code).",
    "note": "Trusted: CPython's bytecode generation is deterministic for identical ASTs; two adversarial orders (ascending, "
            "descending) stand for all permutations - sufficient to expose any dependence on a set of >= 2 elements whose "
            "order reaches the output, because the two orders differ on every pair.",
}


def with_order(reverse, fn):
    mods = (hs, hc, rm)
    saved = [m.__dict__.get("set", None) for m in mods]
    for m in mods:
        m.set = ov.OSet
    ov.OSet.reverse = reverse
    try:
        return fn()
    finally:
        for m, sv in zip(mods, saved):
            if sv is None:
                m.__dict__.pop("set", None)
            else:
                m.set = sv


def dump(result):
    return "\n".join(ast.dump(s) if not isinstance(s, (sx.AbsStmt,)) else repr(s) for s in result.stmts) + "\n=> " + \
        (ast.dump(result._expr) if isinstance(result._expr, ast.AST) and not isinstance(result._expr, sx.AbsExpr) else repr(result._expr))


def _dump_node(n):
    class D(ast.NodeVisitor):
        pass
    # ast.dump handles AbsExpr/AbsStmt (no fields) by class name only: add the token name
    def go(x):
        if isinstance(x, (sx.AbsExpr, sx.AbsStmt)):
            return repr(x)
        if isinstance(x, hs.OuterVar):
            return f"OuterVar({x.names})"
        if isinstance(x, ast.AST):
            return type(x).__name__ + "(" + ", ".join(f"{f}={go(getattr(x, f, None))}" for f in x._fields) + ")"
        if isinstance(x, list):
            return "[" + ", ".join(go(i) for i in x) + "]"
        return repr(x)
    return go(n)


def emission(entry, sv, reverse, assigns):
    def run():
        toks, form = structural.make(entry, sv, extra_tok_kw=dict(assigns=assigns))
        out = sx.run_rule(form, scope_ctx=structural.scope_ctx_for(entry))
        if not out.ok:
            return "EXC " + type(out.exc).__name__
        stmts = [hs.ResolveOuterVars().visit(s) if not isinstance(s, sx.AbsStmt) else s for s in out.result.stmts]
        flat = []
        for s in stmts:
            flat.extend(s if isinstance(s, list) else [s])
        return "\n".join(_dump_node(s) for s in flat) + "\n=> " + _dump_node(out.result._expr)
    return with_order(reverse, run)


def _w(task):
    name, sv = task
    entry = catalog.ENTRIES[name]
    assigns = ("uq", "ua", "uz", "um")
    a = emission(entry, sv, False, assigns)
    b = emission(entry, sv, True, assigns)
    return name, sv, a == b, None if a == b else (a[:600], b[:600])


def outervar_orders(chk, maxd):
    bad = {}
    n = 0
    for ks, sets, g in ov.chains(maxd):
        for names in (("a", "b"), ("b", "a"), ("a", "b", "c"), ("c", "a", "b")):
            # three names: extend the per-scope subsets with c in the innermost enclosing scope
            sets2 = tuple((s + ("c",) if (i == 0 and "c" in names) else s) for i, s in enumerate(sets))
            n += 1
            chk.case(("ov", ks, sets2, g, names))
            f = ov.run_real(names, ks, sets2, g, reverse=False)
            r = ov.run_real(names, ks, sets2, g, reverse=True)
            if f != r:
                bad.setdefault(len(ks), (ks, sets2, g, names, f, r))
    for d in range(0, maxd + 1):
        b = bad.get(d)
        chk.ob(f"order/visit_OuterVar, chains of depth {d}: same result under ascending and descending set iteration", b is None,
               "structural", "exhaustive_finite",
               detail=None if b is None else f"scopes {b[0]} bind {b[1]}, module {b[2]}, declared {b[3]}: ascending {b[4]} vs descending {b[5]}",
               replay=None if b is None else {"confirmed": True, "input": f"(nonlocal {' '.join(b[3])}) under scopes {b[0]} binding {b[1]}",
                                              "observed": f"{b[4]} vs {b[5]}"})
    chk.extra["outervar_order_cases"] = n


def scan(chk):
    """Every conversion of a set / dict-key view into a sequence on the compile path, with a local dataflow heuristic."""
    sites = []
    for p in sorted(glob.glob(os.path.join(REPO, "hy", "*.py")) + glob.glob(os.path.join(REPO, "hy", "core", "*.py"))):
        rel = os.path.relpath(p, REPO)
        if not rel.startswith(("hy/compiler", "hy/scoping", "hy/core/result_macros", "hy/macros", "hy/models", "hy/model_patterns")):
            continue
        tree = ast.parse(open(p).read())
        for fn in ast.walk(tree):
            if not isinstance(fn, (ast.FunctionDef, ast.AsyncFunctionDef)):
                continue
            setvars = set()
            for n in ast.walk(fn):
                if isinstance(n, ast.Assign) and isinstance(n.value, ast.Call):
                    f = ast.unparse(n.value.func)
                    if f in ("set", "frozenset") or f.endswith((".intersection", ".union", ".difference", ".keys")):
                        setvars.update(t.id for t in n.targets if isinstance(t, ast.Name))
                if isinstance(n, ast.Assign) and isinstance(n.value, ast.Attribute) and n.value.attr in ("defined", "iterators"):
                    setvars.update(t.id for t in n.targets if isinstance(t, ast.Name))
            for n in ast.walk(fn):
                if isinstance(n, ast.Call) and ast.unparse(n.func) in ("list", "tuple") and n.args and isinstance(n.args[0], ast.Name) \
                        and n.args[0].id in setvars:
                    sites.append(f"{rel}::{fn.name}: {ast.unparse(n)}")
                if isinstance(n, (ast.For, ast.comprehension)) and isinstance(n.iter, ast.Name) and n.iter.id in setvars:
                    sites.append(f"{rel}::{fn.name}: iteration over set `{n.iter.id}`")
                # a set operator applied to sets or key views yields a plain set, whatever order its operands had
                if isinstance(n, (ast.For, ast.comprehension)) and isinstance(n.iter, ast.BinOp) \
                        and isinstance(n.iter.op, (ast.BitAnd, ast.BitOr, ast.Sub, ast.BitXor)) \
                        and any((isinstance(x, ast.Call) and ast.unparse(x.func).endswith((".keys", ".items")) or ast.unparse(x) in setvars
                                 or (isinstance(x, ast.Call) and ast.unparse(x.func) in ("set", "frozenset"))) for x in (n.iter.left, n.iter.right)):
                    sites.append(f"{rel}::{fn.name}: iteration over the set `{ast.unparse(n.iter)}`")
    chk.extra["set_to_sequence_sites"] = sites
    chk.ob("scan/no set or key view is turned into a list/tuple or iterated on the compile path (local dataflow)", not sites, "structural",
           "proved", detail=str(sites))
    ids = []
    for p in sorted(glob.glob(os.path.join(REPO, "hy", "*.py")) + glob.glob(os.path.join(REPO, "hy", "core", "*.py"))):
        rel = os.path.relpath(p, REPO)
        if rel.startswith(("hy/compiler", "hy/scoping", "hy/core/result_macros")):
            for n in ast.walk(ast.parse(open(p).read())):
                if isinstance(n, ast.Call) and ast.unparse(n.func) in ("id", "hash"):
                    ids.append(f"{rel}: {ast.unparse(n)}")
    chk.ob("scan/compiler, scoping and result macros never call id() or hash()", not ids, "structural", "proved", detail=str(ids))


SEED_SRC = r'''
import ast, marshal, sys, types
sys.path.insert(0, %r)
import hy
from hy.compiler import hy_compile
progs = %r
out = []
for p in progs:
    tree = hy_compile(hy.read_many(p), types.ModuleType("m"))
    code = compile(tree, "<p>", "exec")
    out.append((ast.dump(tree), marshal.dumps(code).hex()))
import hashlib
print(hashlib.sha256(repr(out).encode()).hexdigest())
'''


def hashseeds(chk):
    progs = [
        "(defn f [] (setv a 1 b 2 c 3 d 4) (defn g [] (nonlocal d c b a) (setv a 0)) (g))",
        "(setv x 1 y 2 z 3) (defn f [] (nonlocal z y x) (setv x 2))",
        "(defn f [] (setv p 1 q 2) (lfor i (range 3) :do (setv p i q i r i s i) [p q r s]))",
        "(let [a 1 b 2 c 3] (defn f [] (nonlocal c b a) (setv a 2)) (f) [a b c])",
        "(setv g1 0) (defn f [] (setv a 1 b 2 c 3 d 4 e 5) (defn g [] (nonlocal e g1 d c b a) (setv a 0)) (g))",
        "(defn f [] (setv m 1 n 2 o 3) (defclass C [] (defn k [self] (nonlocal o n m) (setv m 5))))",
        "(import os [path :as p  sep getcwd]) (defmacro mm [] 1) (require hy.core.macros *)",
        # a local require without a name list: the macros brought in are named one by one in the emitted code
        "(pragma :warn-on-core-shadow False) (defn f [] (require hy.core.macros *) 1) (defclass K [] (require hy.core.macros :as cm))",
        "(pragma :warn-on-core-shadow False) (defn g [] (lfor i [1] :do (require hy.core.macros) i))",
        "(match [1 2] [a b #* rest] :as whole [a b rest whole] {\"k\" v #** more} [v more])",
        "(try (setv zz (/ 1 0)) (except [e1 ZeroDivisionError] 1) (except [e2 [KeyError ValueError]] 2) (finally 3))",
    ]
    digests = set()
    env = dict(os.environ)
    seeds = ["0", "1", "2", "31337", "random"] if chk.tier == "quick" else [str(i) for i in range(12)] + ["random", "random"]
    for seed in seeds:
        env["PYTHONHASHSEED"] = seed
        r = subprocess.run([sys.executable, "-c", SEED_SRC % (REPO, progs)], capture_output=True, text=True, env=env, timeout=300)
        chk.case(("seed", seed))
        digests.add(r.stdout.strip() or ("ERR " + r.stderr[-200:]))
    chk.ob("e2e/sample programs compile to identical ASTs and marshalled bytecode under different PYTHONHASHSEEDs", len(digests) == 1, "cpython-oracle",
           "bounded", detail=str(digests), replay={"confirmed": len(digests) != 1, "input": "hash seeds " + ",".join(seeds)})


def run(chk):
    quick = chk.tier == "quick"
    outervar_orders(chk, 3 if quick else 4)
    names = [n for n, e in catalog.ENTRIES.items() if catalog.supported(e)]
    tasks = [(n, sv) for n in names for sv in catalog.vectors(catalog.ENTRIES[n])]
    import gc; gc.collect(); gc.freeze()
    with mp.get_context("fork").Pool(chk.jobs) as pool:
        res = core.pmap(pool, _w, tasks, chunksize=64)
    per = {}
    for name, sv, same, diff in res:
        chk.case((name, sv))
        st = per.setdefault(name, [0, None])
        st[0] += 1
        if not same and st[1] is None:
            st[1] = (sv, diff)
    for name, (n, bad) in sorted(per.items()):
        chk.ob(f"order/rule {name}: identical emission under ascending and descending set iteration", bad is None, "structural", "proved",
               detail=f"{n} shape vectors" if bad is None else f"shapes {bad[0]}:\n--- ascending\n{bad[1][0]}\n--- descending\n{bad[1][1]}")
    # ScopeGen.finalize directly
    def fin(reverse):
        def run_():
            comp = sx.new_compiler()
            with comp.scope:
                g = comp.scope.create(hs.ScopeGen)
                with g:
                    for n in ("uq", "ua", "uz", "um"):
                        g.assign(ast.Name(id=n, ctx=ast.Store()))
                    return g.finalize()
        return with_order(reverse, run_)
    a, b = fin(False), fin(True)
    chk.ob("order/ScopeGen.finalize returns the leaked names in a canonical (sorted) order", a == b == sorted(a), "structural", "proved", detail=f"{a} {b}")
    scan(chk)
    hashseeds(chk)
    chk.fn("hy/scoping.py::ResolveOuterVars.visit_OuterVar", "hy/scoping.py::ScopeGen.finalize", *sorted({e.fn for e in catalog.ENTRIES.values() if e.fn}))
    chk.trust("CPython bytecode generation is deterministic for identical ASTs", "ascending/descending iteration stands for all set orders")
    # canary: a function that lists a set must be flagged by the order test
    def leaky(reverse):
        return with_order(reverse, lambda: list(hs.set(["b", "a"])))
    chk.canary("list(set) differs between the two scripted orders", leaky(False) != leaky(True))
    chk.sample({"chain": "fn>fn", "declared": ["b", "a"], "orders": "ascending vs descending"})


def replay(path):
    from hv.replay import replay_file
    return replay_file(path)
