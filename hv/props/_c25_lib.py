"""Shared machinery of C25: structural comparison of models, input classes, round trip on the real
hy.repr / hy.read / hy.eval, and the generators of Hy source texts (deterministic enumeration and
hypothesis strategies over the same vocabulary)."""
import itertools
import math
import types

import hv.symx.core  # noqa: F401  (puts /repo on sys.path, pre-imports hy)
import hy
from hy.models import (Bytes, Complex, Dict, Expression, FComponent, Float, FString, Integer, Keyword, List, Set, String,
                       Symbol, Tuple)

SEQ = (List, Tuple, Set, Dict, Expression, FString, FComponent)
NS = types.ModuleType("hv_c25_ns")
SUGAR = {"quote": "'", "quasiquote": "`", "unquote": "~", "unquote-splice": "~@", "unpack-iterable": "#* ",
         "unpack-mapping": "#** "}


# ---------------------------------------------------------------------------------------------
# comparison: the clauses of the property
# ---------------------------------------------------------------------------------------------
def _feq(a, b):
    """float equality with NaN compared by isnan (signs of zeros are observed by the reprint clause)"""
    return (math.isnan(a) and math.isnan(b)) or a == b


def diff(m, m2, path="m"):
    """First difference between two models: None or (clause, path, text).  clause in equal/types/attrs."""
    if type(m) is not type(m2):
        return ("types", path, f"{type(m).__name__} vs {type(m2).__name__}")
    if isinstance(m, SEQ):
        if isinstance(m, FString):
            if m.brackets != m2.brackets or bool(m.is_tstring) != bool(m2.is_tstring):
                return ("attrs", path, f"brackets/is_tstring {m.brackets!r}/{m.is_tstring} vs {m2.brackets!r}/{m2.is_tstring}")
        if isinstance(m, FComponent):
            if m.conversion != m2.conversion or bool(m.is_tstring) != bool(m2.is_tstring):
                return ("attrs", path, f"conversion/is_tstring {m.conversion!r}/{m.is_tstring} vs {m2.conversion!r}/{m2.is_tstring}")
        if len(m) != len(m2):
            return ("equal", path, f"{type(m).__name__} of {len(m)} children vs {len(m2)}")
        for i, (a, b) in enumerate(zip(m, m2)):
            d = diff(a, b, f"{path}[{i}]")
            if d:
                return d
        return None
    if isinstance(m, Float):
        return None if _feq(float(m), float(m2)) else ("equal", path, f"{float(m)!r} vs {float(m2)!r}")
    if isinstance(m, Complex):
        a, b = complex(m), complex(m2)
        return None if _feq(a.real, b.real) and _feq(a.imag, b.imag) else ("equal", path, f"{a!r} vs {b!r}")
    if isinstance(m, String):
        if str(m) != str(m2):
            return ("equal", path, f"{str(m)!r} vs {str(m2)!r}")
        if m.brackets != m2.brackets:
            return ("attrs", path, f"brackets {m.brackets!r} vs {m2.brackets!r}")
        return None
    if isinstance(m, Keyword):
        return None if m.name == m2.name else ("equal", path, f":{m.name} vs :{m2.name}")
    if isinstance(m, Bytes):
        return None if bytes(m) == bytes(m2) else ("equal", path, f"{bytes(m)!r} vs {bytes(m2)!r}")
    if isinstance(m, Integer):
        return None if int(m) == int(m2) else ("equal", path, f"{int(m)} vs {int(m2)}")
    if isinstance(m, Symbol):
        return None if str(m) == str(m2) else ("equal", path, f"{str(m)!r} vs {str(m2)!r}")
    return ("types", path, f"model type {type(m).__name__} outside the reader's vocabulary")


def has_nan(m):
    if isinstance(m, SEQ):
        return any(has_nan(c) for c in m)
    if isinstance(m, Float):
        return math.isnan(float(m))
    if isinstance(m, Complex):
        return math.isnan(complex(m).real) or math.isnan(complex(m).imag)
    return False


def read_all(text):
    """The text must be exactly one form (hy.read alone would silently ignore trailing forms)."""
    forms = list(hy.read_many(text))
    if len(forms) != 1:
        raise ValueError(f"{len(forms)} forms instead of one")
    return hy.read(text)


def roundtrip(m):
    """Runs the property on one model.  Returns None (holds) or (clause, detail, printed_text)."""
    try:
        text = hy.repr(m)
    except Exception as e:  # noqa: BLE001
        return ("equal", f"hy.repr raised {type(e).__name__}: {str(e)[:120]}", None)
    if not isinstance(text, str):
        return ("equal", f"hy.repr returned a {type(text).__name__}", None)
    try:
        m2 = hy.eval(read_all(text), module=NS)
    except Exception as e:  # noqa: BLE001
        return ("equal", f"re-reading {text!r} raised {type(e).__name__}: {str(e)[:120]}", text)
    d = diff(m, m2)
    if d:
        return (d[0], f"{d[1]}: {d[2]}; printed {text!r}", text)
    if not has_nan(m) and not (m2 == m):
        return ("equal", f"node-wise identical but == is False; printed {text!r}", text)
    try:
        t2 = hy.repr(m2)
    except Exception as e:  # noqa: BLE001
        return ("reprint", f"printing the re-read model raised {type(e).__name__}", text)
    if t2 != text:
        return ("reprint", f"printed {text!r}, re-read model prints {t2!r}", text)
    return None


# ---------------------------------------------------------------------------------------------
# input classes (one obligation per class and clause); computed from the model alone
# ---------------------------------------------------------------------------------------------
def _alldots(x):
    return type(x) is Symbol and str(x) != "" and not str(x).strip(".")


def _neg0(x):
    return x == 0 and math.copysign(1.0, x) < 0


def fstring_flags(fs):
    """flags of an f-string's own components (nested f-strings in values are classified on their own)"""
    flags = set()

    def comp(c):
        if c.conversion is not None:
            flags.add("conversion")
        if len(c) == 2:
            flags.add("spec")
        if len(c) > 2:
            flags.add("multi-spec")
        for s in c[1:]:
            if isinstance(s, FComponent):
                flags.add("nested-spec")
                comp(s)
            elif isinstance(s, String) and ("{" in s or "}" in s):
                flags.add("spec-brace")
            elif isinstance(s, String) and "\\" in s and fs.brackets is None:
                flags.add("spec-backslash")
    for c in fs:
        if isinstance(c, FComponent):
            comp(c)
    if fs.brackets is not None and len(fs) and isinstance(fs[0], String) and fs[0].startswith("\n"):
        flags.add("leading-newline")
    for i, c in enumerate(fs):
        if isinstance(c, String):
            if fs.brackets is not None and "\r" in c:
                flags.add("carriage-return")
            if fs.brackets is None and ("\\N{" in c or (c.endswith("\\N") and i + 1 < len(fs) and isinstance(fs[i + 1], FComponent))):
                flags.add("named-escape-lookalike")
    return flags


FS_ORDER = ("carriage-return", "named-escape-lookalike", "leading-newline", "spec-backslash", "multi-spec", "spec-brace", "nested-spec", "spec",
            "conversion")
FS_LABEL = {"carriage-return": "a literal part contains a carriage return",
            "named-escape-lookalike": "a literal part contains backslash-N-brace",
            "leading-newline": "content starts with a newline", "multi-spec": "format spec of several components",
            "spec-brace": "format spec with a literal brace", "spec-backslash": "quoted literal with a backslash in a format spec", "nested-spec": "format spec that is one nested field",
            "spec": "format spec that is one literal", "conversion": "conversion only", "plain": "plain fields or none"}
FS_ONLY = {"carriage-return": ("bracket-f",), "leading-newline": ("bracket-f",), "named-escape-lookalike": ("f", "t"), "spec-backslash": ("f", "t")}


def node_class(m):
    t = type(m).__name__
    if isinstance(m, FString):
        fl = fstring_flags(m)
        kind = ("bracket-t" if m.is_tstring else "bracket-f") if m.brackets is not None else ("t" if m.is_tstring else "f")
        # an f-string goes to the class of its most defect-prone feature
        first = next((f for f in FS_ORDER if f in fl), "plain")
        return f"FString/{kind}/{FS_LABEL[first]}"
    if isinstance(m, String):
        if m.brackets is not None:
            return "String/bracket/" + ("content starts with a newline" if m.startswith("\n") else "other content")
        plain = all(c.isalnum() or c in " -_" for c in m)
        return "String/quoted/" + ("plain" if plain else "needs escapes")
    if isinstance(m, Expression):
        n = len(m)
        if n == 0:
            return "Expression/empty"
        h = m[0]
        if n == 2 and type(h) is Symbol and str(h) in SUGAR:
            if str(h) == "unquote" and isinstance(m[1], Symbol) and str(m[1]).startswith("@"):
                return "Expression/sugar/unquote of @-symbol"
            a = m[1]
            if str(h) == "unquote" and type(a) is Expression and len(a) >= 3 and all(type(e) is Symbol for e in a) \
                    and str(a[0]) == "." and str(a[1]).startswith("@"):
                return "Expression/sugar/unquote of a dotted form starting with @"
            return f"Expression/sugar/{h}"
        if type(h) is Symbol and str(h) in SUGAR:
            return "Expression/sugar head with other arity"
        if _alldots(h):
            if n >= 3 and all(type(e) is Symbol for e in m):
                sugar = str(h) == "." or str(m[1]) == "None"
                ops = m[2:] if str(m[1]) == "None" else m[1:]
                if sugar and any(_alldots(e) for e in ops):
                    return "Expression/dotted/an operand is an all-dots symbol"
                return "Expression/dotted/" + ("sugar" if sugar else "no None after dots")
            return "Expression/dotted/not all symbols or short"
        return "Expression/call"
    if isinstance(m, (List, Tuple, Set, Dict)):
        return f"{t}/" + ("empty" if not len(m) else "non-empty")
    if isinstance(m, Float):
        f = float(m)
        return "Float/" + ("nan" if math.isnan(f) else "inf" if math.isinf(f) else "negative zero" if _neg0(f) else "finite")
    if isinstance(m, Complex):
        c = complex(m)
        if _neg0(c.imag):
            return "Complex/negative zero imaginary part"
        if math.isnan(c.real) or math.isnan(c.imag) or math.isinf(c.real) or math.isinf(c.imag):
            return "Complex/nan or inf part"
        if _neg0(c.real):
            return "Complex/negative zero real part"
        return "Complex/finite"
    if isinstance(m, Symbol):
        s = str(m)
        if _alldots(m):
            return "Symbol/all dots"
        if all(c.isalnum() or c in "-_" for c in s) and s.isascii():
            return "Symbol/plain"
        return "Symbol/special characters"
    if isinstance(m, Keyword):
        if m.name == "":
            return "Keyword/empty"
        return "Keyword/" + ("plain" if all(c.isalnum() or c in "-_" for c in m.name) and m.name.isascii() else "special characters")
    return t


def standalone_children(m):
    """sub-models that are forms of their own (for f-strings: the values of the replacement fields)"""
    if isinstance(m, FString) or isinstance(m, FComponent):
        out = []
        for c in m:
            if isinstance(c, FComponent):
                out.append(c[0])
                for s in c[1:]:
                    if isinstance(s, FComponent):
                        out += standalone_children(FString([s]))
        return out
    if isinstance(m, SEQ):
        return list(m)
    return []


def walk(m):
    yield m
    for c in standalone_children(m):
        yield from walk(c)


def minimal_failing(m, res):
    """Descend to a smallest sub-form that fails the round trip on its own."""
    for c in standalone_children(m):
        r = roundtrip(c)
        if r is not None:
            return minimal_failing(c, r)
    return m, res


CLAUSES = ("equal", "types", "attrs", "reprint")

ALL_CLASSES = (
    ["Bytes", "Integer", "Complex/finite", "Complex/nan or inf part", "Complex/negative zero real part",
     "Complex/negative zero imaginary part", "Dict/empty", "Dict/non-empty", "Expression/call", "Expression/dotted/sugar",
     "Expression/dotted/an operand is an all-dots symbol", "Expression/dotted/no None after dots",
     "Expression/dotted/not all symbols or short", "Expression/empty", "Expression/sugar head with other arity",
     "Expression/sugar/unquote of @-symbol", "Expression/sugar/unquote of a dotted form starting with @", "Float/finite", "Float/inf", "Float/nan", "Float/negative zero", "Keyword/empty",
     "Keyword/plain", "Keyword/special characters", "List/empty", "List/non-empty", "Set/empty", "Set/non-empty", "Tuple/empty",
     "Tuple/non-empty", "String/quoted/plain", "String/quoted/needs escapes", "String/bracket/other content",
     "String/bracket/content starts with a newline", "Symbol/all dots", "Symbol/plain", "Symbol/special characters"]
    + [f"Expression/sugar/{h}" for h in SUGAR]
    + [f"FString/{k}/{FS_LABEL[f]}" for k in ("f", "t", "bracket-f") for f in FS_ORDER + ("plain",)
       if k in FS_ONLY.get(f, (k,))])


def run_case(m):
    """-> (classes seen in m, None | (class, clause, detail, minimal printed text, minimal model repr))"""
    classes = {node_class(n) for n in walk(m)}
    r = roundtrip(m)
    if r is None:
        return classes, None
    mm, rr = minimal_failing(m, r)
    return classes, (node_class(mm), rr[0], rr[1], rr[2], _src(mm))


def _src(m):
    try:
        return repr(m).replace("hy.models.", "").replace("\n", "").replace("  ", "")[:400]
    except Exception:  # noqa: BLE001
        return "<unprintable>"


# ---------------------------------------------------------------------------------------------
# vocabulary of source texts
# ---------------------------------------------------------------------------------------------
SYMBOLS = ["a", "foo-bar", "_x", "*earmuffs*", "a?", "b!", "+", "-", "*", "/", "//", "<=", "->", "->>", "&", "|", "%", "@",
           "@a", "a@b", "=", "!=", "None", "True", "False", "quote", "unquote", "unquote-splice", "hy", "λ", "ñ-x", "1/2", "-a",
           "a1", "a:b", "a=b", "a#b", "$x", "^", "&rest", "nan", "inf", "j", "J", "e1", "x!r", "a,b", "_", "__init__", "ＡＢ",
           ".", "..", "...", "....", "-Inf2", "+", "1+", "0x"]
DOTTED = ["a.b", "a.b.c", ".a", ".a.b", "..a", "...a.b", "hy.models.Symbol", "a.None", ".None", "a.-", "a.j", "None.a",
          "a-b.c?", "λ.μ"]
KEYWORDS = [":a", ":foo-bar", ":", ":a?", ":1", ":+", ":a:b", "::a", ":λ", ":None", ":_x", ":a!", ":->", ":#"]
INTEGERS = ["0", "1", "-1", "+1", "007", "1_000", "1,000", "0x1F", "0o17", "0b101", "-0xff", "-0",
            "123456789012345678901234567890", "-98765432109876543210"]
FLOATS = ["1.5", "-1.5", "0.0", "-0.0", "1.", ".5", "1e10", "1E-10", "1e400", "-1e400", "NaN", "Inf", "-Inf", "+Inf",
          "5e-324", "1e-400", "-1e-400", "0.1", "1e16", "1e22", "1.7976931348623157e308", "1_0.0_1", "3.141592653589793",
          "1e-5", "123456789.123456789", "-NaN", "+NaN"]
COMPLEXES = ["1j", "-1j", "1+2j", "1.5-2.5j", "0j", "-0j", "-0.0-0.0j", "-0.0+0j", "0-0j", "1-0j", "-0+1j", "1e10j", "NaNj",
             "Infj", "-Infj", "1+NaNj", "NaN+1j", "Inf-Infj", "NaN+NaNj", "1e400j", "2J", ".5j", "1e-7j", "-1e400-1e400j",
             "1+Infj", "-Inf+0j"]
STRINGS = ['""', '"a"', '"a b"', '"a\\"b"', '"\'"', '"\'\\""', '"a\\\\b"', '"a\\nb"', '"a\nb"', '"a\r\nb"', '"a\rb"',
           '"\\t\\r\\0\\x00\\x7f"', '"\\xe9\\u00e9\\U0001F600"', '"é😀"', '"\\N{DIGIT ONE}"', 'r"a\\nb"', '"{x}"', '"a\\\nb"',
           '"\\ud800"', '"  "', '"\\x1b[0m"', '" "', '";"', '"#[["', '"\\a\\b\\f\\v"', '"\\101\\7"', '"\x7f\x80\xa0\xad"',
           '"\\\\\\""', '"\n"', '"\t"', '"]]"', 'r"\\d+\\."', '"\\\'"', '"a\'b\\"c"', '"̀"', '"\\\\N{x}"']
BYTESS = ['b""', 'b"a"', 'b"\\x00\\xff"', 'b"a\\"b\'"', 'b"a\nb"', 'br"a\\n"', 'rb"\\x"', 'b"\\\\"', 'b"\\n\\t\\r"', 'b"\'"',
          'b"\\x7f\\x80"', 'b"\\101"', 'b" "', 'b"\\"\\""']
BR_DELIMS = ["", "x", "==", "a b", "F", "foo", "-", "t", "t-x", "ff", '"', "(", "#", "fx", " ", "λ", "=x="]
BR_CONTENTS = ["", "a", "a b", "\n", "\na", "\n\na", "\n\n", "a\nb", "a\n", "]", "a]b", "[a]", '"', "'", "\\", "\\n", "{x}",
               "a\r\nb", "\r\na", "\ra", "é😀", ";c", "#[[", "]x", "x]", "]=", "=]", "\n]", " \na", "\t", "\\\"", "}{"]
FS_PREFIX = ['f"', 't"', 'rf"', "#[f[", "#[f-x[", "#[f[\n", "#[f-[", "#[f-a b["]
FS_LIT = ["", "a", "a b", "{{", "}}", "{{x}}", "é", "'", "a ", " ", "=", "!r", ":", "#", ";"]
FS_LIT_QUOTED = ["\\n", "\n", "\\\"", "\\\\", "\\N{DIGIT ONE}", "\\x00", "\\t"]          # only in "..." forms
FS_LIT_BRACKET = ["\n", "\n\n", "\"", "\\", "\\n", "]", "]x", "a\nb"]                    # only in #[f[...]f] forms
FS_VALUES = ["x", "(f x)", "\"s\"", "1", ":k", "[a b]", "f\"{y}\"", "x.y", "(. x y)", "'q", "#(1 2)", "{1 2}", "1.5", "NaN",
             "b\"b\"", "#[[br]]", "f\"{y !r :>{w}}\"", "(+ 1  2)", "-0j"]
FS_DEBUG = ["", " =", "=", " = ", " =  "]
FS_CONV = ["", "!r", "!s", "!a", "!z"]
FS_SPEC = ["", ":", ":>10", ":{w}", ":>{w}", ":{w}.{p}", ":>{w}.{p}f", ":{a}{b}", ":{{", ":x{{y", ":{w !r}", ":{w :{v}}", ": ",
           ":{w}x", ":.{p}", ":{w :{u}{v}}", ":a b", ":é", ":{(f x)}", ":{{{w}", ":a\\\\b",
           # a nested debug field: its verbatim text is a literal piece of its own, next to the literal before it
           ":a{w = }", ":{w = }x", ":a{w=}b{p = !s}"]
WRAPPERS = ["({})", "[{}]", "{{{}}}", "#{{{}}}", "#({})", "'{}", "`{}", "~{}", "~@{}", "#* {}", "#** {}"]
SEQ_WRAPPERS = WRAPPERS[:5]
EXPLICIT = ["()", "[]", "{}", "#{}", "#()", "(quote)", "(quote a b)", "(quasiquote)", "(unquote a b)", "(unquote-splice)",
            "(unpack-iterable)", "(unpack-mapping a b)", "(unquote @a)", "(unquote @)", "(unquote-splice @a)", "~ @a", "~@ @a", "~~a",
            "~~@a", "~ ~@a", "''a", "'`~a", "#* #* a", "#** #* a", "#^ int x", "#^ (get a b) [x]", "(annotate x int)", "#_ a b",
            "; comment\na", "(a ; c\n b)", "(. a)", "(. a b)", "(. a b c)", "(. None a)", "(. None a b)", "(. None)", "(.)", "(..)",
            "(.. None a)", "(.. None a b)", "(... None a b c)", "(.. a b)", "(.. a b c)", "(. . a)", "(. a .)", "(. . .)", "(. a ...)",
            "(. ... a b)", "(. . a b)", "(. None . a)", "(.. None . a)", "(.. None None)", "(. None None)", "(. a None)", "(. a 1)",
            "(. a \"b\")", "(. a [b])", "(. a (b c))", "(.a b)", "(.a.b c)", "((. a b) c)", "(. (a b) c)", "(. a b None)",
            "(.. None)", "(. \"s\" upper)", "(quote . a)", "'(. . a)", "[(. . a)]", "(. a b.c)", "(. a.b c)", "(unquote :k)",
            "(unquote \"@a\")", "(unquote [@a])", "(unquote (@a))", "{a}", "{a b c}", "{:a 1 :b 2}", "#{a a}", "(fn [x #* y #** z] x)",
            "(setv x 1)", "(defn f [] \"doc\" (return))", "`(a ~b ~@c ~@(d e) ~ @f)", "(quote quote)", "(quote 'a)", "(unquote unquote)",
            "(unpack-iterable unpack-iterable)", "(unpack-iterable *a)", "(unpack-mapping **a)", "(unpack-iterable #(1 2))",
            "(hy.models.Symbol \"a\")", "(None)", "(None None)", "(. None None None)", "(... a b)", "(.... None a)", "~(. @x b)", "(unquote @x.b)", "~ @x.b", "(unquote (. @x b c))",
            "~(. None @x)", "~@(. @x b)", "rf\"\\N{{x}}\"", "rf\"\\N{x}\"", "rf\"a\\N{{\"", "rt\"\\N{x !r}\"", "f\"{\"\\N{DIGIT ONE}\" = }\"",
            "#[f-[{\"C\r\" = }]f-]", "#[f[{\"a\r\nb\"  =  !s :>5}x]f]", "f\"{\"C\r\" = }\"", "#[f[\\N{x}]f]", "#[f[\\N{{x}}]f]"]


def bracket_texts():
    for d in BR_DELIMS:
        for c in BR_CONTENTS:
            yield f"#[{d}[{c}]{d}]"
            yield f"#[{d}[\n{c}]{d}]"


def fstring_text(prefix, before, value, debug, conv, spec, after):
    close = {'f"': '"', 't"': '"', 'rf"': '"'}.get(prefix)
    if close is None:
        d = prefix[2:].split("[")[0]
        close = f"]{d}]"
    sp = (" " if (debug or conv or spec) else "")
    # (a value that starts with a brace needs a blank after the field's opening brace: "{{" is an escaped brace)
    field = "{" + (" " if value.startswith("{") else "") + value + sp + debug + conv + ((" " + spec) if spec else "") + "}"
    return prefix + before + field + after + close


def fstring_texts(tier):
    vals, lits = FS_VALUES, FS_LIT
    i = 0
    # every (prefix, debug, conversion, spec) combination; values and literal parts rotate through their vocabularies
    for prefix, debug, conv, spec in itertools.product(FS_PREFIX, FS_DEBUG, FS_CONV, FS_SPEC):
        if tier == "quick" and (debug not in ("", " = ") or prefix in ("#[f-[", "#[f-a b[")):
            continue
        i += 1
        extra = FS_LIT_QUOTED if prefix.endswith('"') and not prefix.startswith("r") else FS_LIT_BRACKET if prefix.startswith("#") else []
        L = lits + extra
        yield fstring_text(prefix, L[i % len(L)], vals[i % len(vals)], debug, conv, spec, L[(i * 7 + 3) % len(L)])
    # every (prefix, literal before, value, literal after) combination with a rotating field decoration
    for prefix in FS_PREFIX:
        extra = FS_LIT_QUOTED if prefix.endswith('"') and not prefix.startswith("r") else FS_LIT_BRACKET if prefix.startswith("#") else []
        L = lits + extra
        for before, value in itertools.product(L, vals):
            i += 1
            if tier == "quick" and i % 6:
                continue
            yield fstring_text(prefix, before, value, FS_DEBUG[i % len(FS_DEBUG)], FS_CONV[i % len(FS_CONV)],
                               FS_SPEC[i % len(FS_SPEC)], L[i % len(L)])
    # several fields, adjacent fields, no fields
    for prefix in FS_PREFIX:
        close = fstring_text(prefix, "", "x", "", "", "", "")[len(prefix) + 3:]
        for body in ("", "a", "{x}{y}", "{x} {y !r}", "a{x}b{y :>{w}}c", "{{{x}}}", "{x}{{", "{ x }", "{\nx\n}", "{x ; c\n}",
                     "{x :{y}}{z}", "{x !r :{y !s}}", "{(f \"}\")}", "{x = }{y = }", "{x =!r}", "{x= :>{w}}"):
            yield prefix + body + close


def atoms():
    return SYMBOLS + DOTTED + KEYWORDS + INTEGERS + FLOATS + COMPLEXES + STRINGS + BYTESS


def representatives():
    """a few texts of every class used as leaves of the nesting enumeration"""
    return ["a", "a.b", ".a.b", ":k", "1", "-0.0", "NaN", "1+2j", '"s\\n"', 'b"b"', "#[[br]]", "#[x[\n\nnl]x]", 'f"a{x !r :>{w}}"',
            "#[f[{x}]f]", 't"{x}"', "()", "[b c]", "#{}", "{k v}", "#(1)", "'q", "`(a ~b)", "~@c", "#* d", "#** e", "@a", "...",
            "None", "(. . a)", 'f"{x :{w}.{p}}"']


def enumeration(tier):
    """deterministic small-scope enumeration of source texts: (family, text)"""
    out = []
    add = lambda fam, t: out.append((fam, t))
    for t in atoms():
        add("atom", t)
    for t in EXPLICIT:
        add("explicit", t)
    for t in bracket_texts():
        add("bracket", t)
    for t in fstring_texts(tier):
        add("fstring", t)
    reps = representatives()
    # every wrapper around every atom (depth 1) and around 0..3 representatives
    for w in WRAPPERS:
        for t in (atoms() if tier == "thorough" else reps):
            add("wrap1", w.format(t))
    for w in SEQ_WRAPPERS:
        for n in range(0, 5):
            for k in range(len(reps) if tier == "thorough" else 6):
                add("seq", w.format(" ".join(reps[(k + 5 * j) % len(reps)] for j in range(n))))
    # nesting to depth 3: every triple of wrappers, leaves rotating
    k = 0
    for w1, w2, w3 in itertools.product(WRAPPERS, repeat=3):
        leaves = [reps[(k + 3 * j) % len(reps)] for j in range(10)] if tier == "thorough" else [reps[k % len(reps)]]
        for leaf in leaves:
            k += 1
            inner = w3.format(leaf)
            mid = w2.format(inner + " " + reps[(k * 3) % len(reps)]) if w2 in SEQ_WRAPPERS else w2.format(inner)
            add("nest3", w1.format(reps[(k * 5) % len(reps)] + " " + mid) if w1 in SEQ_WRAPPERS else w1.format(mid))
    # f-strings and bracket strings inside sequences inside f-string values
    for v in reps:
        add("fvalue", 'f"a{' + v + ' !r :>{[' + v + ']}}b"')
        add("fvalue", "#[f-q[" + "{" + v + " }" + "]f-q]")
    return out


def read_source(text):
    """-> model or None when the text is not exactly one readable form (such texts are outside the quantifier)"""
    try:
        return read_all(text)
    except Exception:  # noqa: BLE001
        return None


# ---------------------------------------------------------------------------------------------
# hypothesis strategies over the same syntax (bounded depth and size)
# ---------------------------------------------------------------------------------------------
def text_strategy():
    from hypothesis import strategies as st
    ident_chars = "abcxyz019-_*?!+<>=/&|%@^$λ:#.,"
    sym = st.text(ident_chars, min_size=1, max_size=6)
    number = st.one_of(
        st.integers(-10**20, 10**20).map(str),
        st.integers(0, 10**6).map(hex), st.integers(0, 10**6).map(oct), st.integers(0, 10**4).map(bin),
        st.floats(allow_nan=True, allow_infinity=True).map(_hy_float),
        st.complex_numbers(allow_nan=True, allow_infinity=True).map(_hy_complex),
        st.tuples(st.sampled_from(["", "-"]), st.sampled_from(["0", "0.0", "1", "Inf", "NaN"]), st.sampled_from(["+", "-"]),
                  st.sampled_from(["0", "0.0", "2", "Inf", "NaN"])).map(lambda t: f"{t[0]}{t[1]}{t[2]}{t[3]}j"),
    )
    chars = st.one_of(st.sampled_from(list("ab \"'\\\n\r\t{}[]#;é😀\x00\x7f ")), st.characters(blacklist_categories=("Cs",)))
    body = st.lists(chars, max_size=8).map("".join)
    quoted = body.map(lambda s: '"' + s.replace("\\", "\\\\").replace('"', '\\"') + '"')
    bytestr = st.binary(max_size=6).map(lambda b: 'b"' + "".join(f"\\x{c:02x}" if c < 32 or c > 126 or c in (34, 92) else chr(c) for c in b) + '"')
    delim = st.one_of(st.sampled_from(BR_DELIMS), st.text("ab=-x t", max_size=3))
    brbody = st.lists(st.sampled_from(list("ab \n\n]][\"'\\{}=x-")), max_size=8).map("".join)
    bracket = st.tuples(delim, st.sampled_from(["", "\n"]), brbody).map(lambda t: f"#[{t[0]}[{t[1]}{t[2]}]{t[0]}]")
    leaf = st.one_of(st.sampled_from(atoms()), sym, sym.map(lambda s: ":" + s), number, quoted, bytestr, bracket,
                     st.sampled_from(EXPLICIT))

    def extend(inner):
        seqs = st.tuples(st.sampled_from(SEQ_WRAPPERS), st.lists(inner, max_size=4)).map(lambda t: t[0].format(" ".join(t[1])))
        sugar = st.tuples(st.sampled_from(WRAPPERS[5:]), inner).map(lambda t: t[0].format(t[1]))
        explicit = st.tuples(st.sampled_from(list(SUGAR) + [".", "..", "..."]), st.lists(inner, max_size=3)).map(
            lambda t: "(" + " ".join([t[0]] + t[1]) + ")")
        dotted = st.tuples(st.sampled_from([".", "..", "..."]),
                           st.lists(st.sampled_from(["a", "b", "None", ".", "..", "...", "@x", "c?"]), min_size=1, max_size=4)).map(
            lambda t: "(" + " ".join([t[0]] + t[1]) + ")")
        return st.one_of(seqs, sugar, explicit, dotted, fstring(inner))

    def fstring(inner):
        lit = st.one_of(st.sampled_from(FS_LIT), st.lists(st.sampled_from(list("ab {}=!:'#;é")), max_size=5).map(
            lambda cs: "".join(cs).replace("{", "{{").replace("}", "}}")))
        specpart = st.deferred(lambda: st.one_of(
            st.sampled_from(["", ">", "10", ".", "f", "x", " ", "{{", "é"]),
            st.tuples(inner, st.sampled_from(FS_CONV), st.sampled_from(["", ":>", ":{v}", ":{u}{v}"])).map(
                lambda t: "{" + t[0] + " " + t[1] + (" " + t[2] if t[2] else "") + "}")))
        spec = st.one_of(st.just(""), st.sampled_from(FS_SPEC), st.lists(specpart, max_size=4).map(lambda ps: ":" + "".join(ps)))
        field = st.tuples(inner, st.sampled_from(FS_DEBUG), st.sampled_from(FS_CONV), spec).map(
            lambda t: "{" + t[0] + " " + t[1] + t[2] + (" " + t[3] if t[3] else "") + "}")
        parts = st.lists(st.one_of(lit, field), max_size=4).map("".join)
        quotedlit = st.sampled_from(FS_LIT_QUOTED)
        brlit = st.sampled_from(FS_LIT_BRACKET)

        def build(t):
            prefix, body, extra_q, extra_b, pos = t
            closing = fstring_text(prefix, "", "x", "", "", "", "")[len(prefix) + 3:]
            extra = extra_q if prefix in ('f"', 't"') else extra_b if prefix.startswith("#") else ""
            return prefix + (extra + body if pos else body + extra) + closing
        return st.tuples(st.sampled_from(FS_PREFIX), parts, st.one_of(st.just(""), quotedlit), st.one_of(st.just(""), brlit),
                         st.booleans()).map(build)
    return st.recursive(leaf, extend, max_leaves=8)


def _hy_float(x):
    if math.isnan(x):
        return "NaN"
    if math.isinf(x):
        return "Inf" if x > 0 else "-Inf"
    return repr(x)


def _hy_complex(z):
    def part(x, signed):
        s = _hy_float(abs(x)) if not math.isnan(x) else "NaN"
        sign = "-" if math.copysign(1.0, x) < 0 and not math.isnan(x) else ("+" if signed else "")
        return sign + s
    return part(z.real, False) + part(z.imag, True) + "j"
