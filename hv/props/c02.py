"""C02 and/or: short-circuit, operand value, left-to-right, (and)=True, (or)=None."""
from hv import equiv, rules
from hv.symx.core import E, S, run_rule, tokens

META = {
    "engine": "symx+pysem",
    "level": "proof",
    "technique": "contract-based: symbolic execution of the real compile_logical_or_and_and_operator on opaque operands; "
                 "postcondition pysem(emitted) == reference fold, decided by exhaustive decision enumeration (EUF)",
    "text": "For every operand count 0..5 (quick) / 0..8 (thorough; the property's own quantifier) and every mix of "
            "operand shapes (pure expression, statements+expression, statements only, bare name) the real rule is run on "
            "opaque operands; the emitted code is proved trace-equivalent to the documented fold for all operand values, "
            "all truthiness assignments and a raise point at every operand. Complete within the stated arity.",
    "note": "Trusted: pysem (model of Python's BoolOp/If/Assign/Name semantics), hysem and/or fold as the reading of the "
            "docs, parametricity of the rule in its operands (any observation other than the enumerated shape is trapped). "
            "Arity is bounded (the loop mutates AST nodes through aliases; no inductive invariant is claimed).",
}

SH = ("E", "SE", "S", "N")
ST = ("E", "SE", "S", "T")


def _mk(op, n, shapes=SH):
    rules.Case(f"{op}/{n}", lambda *o, op=op: E(S(op), *o), n, shapes, kind="arity_bounded",
               fn="hy/core/result_macros.py::compile_logical_or_and_and_operator")


def run(chk):
    hi = 5 if chk.tier == "quick" else 8
    names = []
    for op in ("and", "or"):
        for n in range(0, hi + 1):
            _mk(op, n, SH if n <= 6 else ("E", "SE", "S"))
            names.append(f"{op}/{n}")
    # operands that are let-bound variables (their Python names look like compiler temporaries)
    for op in ("and", "or"):
        for n in range(1, 4):
            rules.Case(f"{op}/{n}/let-bound-operands", lambda *o, op=op: E(S(op), *o), n, ("E", "SE", "L"), kind="arity_bounded")
            names.append(f"{op}/{n}/let-bound-operands")
    # nested and/or (the property's "including nested and/or"): inner forms are real forms, not tokens
    B = ("E", "SE", "S")
    rules.Case("nest/and-or", lambda a, b, c, d: E(S("and"), a, E(S("or"), b, c), d), 4, B, kind="arity_bounded")
    rules.Case("nest/or-and", lambda a, b, c, d: E(S("or"), a, E(S("and"), b, c), d), 4, B, kind="arity_bounded")
    rules.Case("nest/and-and", lambda a, b, c: E(S("and"), E(S("and"), a, b), c), 3, B, kind="arity_bounded")
    rules.Case("nest/or-or-last", lambda a, b, c: E(S("or"), a, E(S("or"), b, c)), 3, B, kind="arity_bounded")
    rules.Case("nest/and-not-or", lambda a, b, c: E(S("and"), E(S("not"), a), E(S("or"), b, c)), 3, B, kind="arity_bounded")
    names += ["nest/and-or", "nest/or-and", "nest/and-and", "nest/or-or-last", "nest/and-not-or"]
    # operands that carry result temporaries (the shape `if`/`try`/`match` results have), arity <= 4
    for op in ("and", "or"):
        for n in range(1, 5):
            rules.Case(f"{op}/{n}/temp-operands", lambda *o, op=op: E(S(op), *o), n, ST, kind="arity_bounded")
            names.append(f"{op}/{n}/temp-operands")
    # systematic depth-2 composites: an inner and/or (real form, real BoolOp/If emission) in every slot of a 4-ary outer
    for outer in ("and", "or"):
        for inner in ("and", "or"):
            for pos in range(4):
                def mk(a, b, c, x, y, outer=outer, inner=inner, pos=pos):
                    ops = [a, b, c]
                    ops.insert(pos, E(S(inner), x, y))
                    return E(S(outer), *ops)
                nm = f"nest/{outer}-with-{inner}-at-{pos}"
                rules.Case(nm, mk, 5, B if chk.tier == "thorough" else ("E", "SE"), kind="arity_bounded")
                names.append(nm)
    # an operand that is an anonymous function compiled to a `def` (statement body): creating it evaluates its parameter defaults,
    # exactly when the operand is reached - a `def` is not effect-free
    from hy.models import List as L_
    fnop = lambda d: E(S("fn"), L_([L_([S("hv_p"), d])]), E(S("setv"), S("hv_y"), S("hv_p")), S("hv_y"))
    for op in ("and", "or"):
        rules.Case(f"nest/{op}-with-def-fn-second", lambda a, d, op=op: E(S(op), a, fnop(d)), 2, ("E", "SE"), kind="arity_bounded")
        rules.Case(f"nest/{op}-with-def-fn-last-of-three", lambda a, b, d, op=op: E(S(op), a, b, fnop(d)), 3, ("E", "SE"), kind="arity_bounded")
        rules.Case(f"nest/{op}-with-def-fn-middle", lambda a, d, c, op=op: E(S(op), a, fnop(d), c), 3, ("E", "SE"), kind="arity_bounded")
        names += [f"nest/{op}-with-def-fn-second", f"nest/{op}-with-def-fn-last-of-three", f"nest/{op}-with-def-fn-middle"]
    rules.Case("nest/and-of-if", lambda a, b, c, d: E(S("and"), E(S("if"), a, b, c), d), 4, B, kind="arity_bounded")
    rules.Case("nest/or-of-try", lambda a, b, c: E(S("or"), E(S("try"), a, E(S("finally"), b)), c), 3, B, kind="arity_bounded")
    names += ["nest/and-of-if", "nest/or-of-try"]
    chk.fn("hy/core/result_macros.py::compile_logical_or_and_and_operator (closures put/get/enbool)",
           "hy/compiler.py::Result.force_expr", "hy/compiler.py::HyASTCompiler.get_anon_var")
    chk.bounds["arity"] = f"0..{hi}"
    chk.bounds["operand shapes"] = "E, SE, S, N(bare name) for arity<=6; E, SE, S above"
    chk.trust("pysem: BoolOp / If / UnaryOp(Not) / Assign-to-temporary / Name semantics of CPython",
              "hysem: (and)/(or) fold written from docs/api.rst and hy.pyops docstrings",
              "parametricity: the rule observes operands only through Result.stmts emptiness and force_expr",
              "bool(v) is pure and stable for one value (truthiness memoised per value term)")
    from hv.replay import replay_mismatch
    rules.run_cases(chk, names, replay_fn=replay_mismatch)

    # must-fail canaries: wrong reference semantics must be refuted by the same engine
    toks = tokens(("E", "SE", "E"))
    out = run_rule(E(S("and"), *toks))
    _, bad = equiv.compare(out.result, E(S("or"), *toks))
    chk.canary("and emitted vs `or` reference", bool(bad))
    out = run_rule(E(S("or"), *toks))
    _, bad = equiv.compare(out.result, E(S("do"), *toks))
    chk.canary("or emitted vs `do` (no short-circuit) reference", bool(bad))
    chk.sample({"rule": "and/3", "shapes": ["E", "SE", "E"], "emitted": __import__("hv.symx.core", fromlist=["show"]).show(run_rule(E(S("and"), *toks)).result)})
    chk.explanation = ("every shape vector of every arity is one obligation; each is decided by enumerating all decision "
                       "vectors (raise at each atom, truthiness of each value) of emitted code and reference")


def replay(path):
    from hv.replay import replay_file
    return replay_file(path)
