"""Generator of scratch packages of Hy modules for the C15 check.

A package holds macro modules (defmacro, defreader, `export`, a hand-set `_hy_export_macros`, a hyphenated module name,
subpackages) and client modules.  Every macro is `(defmacro NAME [x] `(+ (* ~x A) B))` with its own (A, B), so the value
of a call tells which macro a name is bound to, and the generator knows the value every client variable must have.
A client module is a list of `require` forms in one *shape*, followed by uses of the required macros at the top level,
in a function, in a class body, and through hy.eval / hy.macroexpand at run time (which look the macro up in the
module's `_hy_macros` when the module runs - the place where a wrong run-time `require` shows).
"""
import os

# macro modules: module path below the package -> ordered macro names (Hy spelling)
MACRO_MODULES = {
    "macs": ["m1", "my-mac", "is-ok?", "_priv", "☘"],
    "exp": ["e1", "e2", "_e3"],              # (export :macros [e1 _e3])
    "exp2": ["x1", "x2"],                    # (setv _hy_export_macros ["x2"])
    "my_macs": ["h1", "h-2"],                # required as PKG.my-macs
    "sub.sib": ["s1"],
    "other.om": ["o1"],
    "other": ["om-init"],                    # a package whose __init__ defines a macro
}
EXPORTS = {"macs": ["m1", "my-mac", "is-ok?", "☘"], "exp": ["e1", "_e3"], "exp2": ["x2"], "my_macs": ["h1", "h-2"],
           "sub.sib": ["s1"], "other.om": ["o1"], "other": ["om-init"]}
READERS = {"macs": ["r1", "rnone", "rwrap"], "exp": ["er"]}


class Pkg:
    def __init__(self, name, salt):
        self.name, self.salt = name, salt
        self.coef = {}
        n = 0
        for mod, names in MACRO_MODULES.items():
            for mac in names:
                n += 1
                self.coef[(mod, mac)] = (2 + (n * 7 + salt) % 11, 100 * n + salt % 50)

    def val(self, mac, k):
        a, b = self.coef[mac]
        return k * a + b

    def reader_value(self, mod, r):
        return f"{self.name}.{mod}/{r}"


def macro_module_text(p, mod):
    lines = [f";; macro module {mod} of {p.name}"]
    if mod == "other":
        pass
    for mac in MACRO_MODULES[mod]:
        a, b = p.coef[(mod, mac)]
        lines.append(f"(defmacro {mac} [x] `(+ (* ~x {a}) {b}))")
    for r in READERS.get(mod, []):
        if r == "rnone":
            lines.append("(defreader rnone None)")
        elif r == "rwrap":
            lines.append("(defreader rwrap (setv form (.parse-one-form &reader)) `[\"rwrap\" ~form])")
        else:
            lines.append(f"(defreader {r} \"{p.reader_value(mod, r)}\")")
    if mod == "exp":
        lines.append("(export :macros [e1 _e3])")
    if mod == "exp2":
        lines.append("(setv _hy_export_macros [\"x2\"])")
    lines.append(f"(setv plain-{mod.replace('.', '-').replace('_', '-')} {p.salt})")
    return "\n".join(lines) + "\n"


class Client:
    """One client module: `requires` (texts), `uses` [(head text, macro id, arg transform)], reader uses, extras."""

    def __init__(self, shape, mod, requires, uses=(), extra=(), expect=None, keys=None, rkeys=None, local_only=False):
        self.shape, self.mod = shape, mod
        self.requires, self.uses, self.extra = list(requires), list(uses), list(extra)
        self.expect = dict(expect or {})          # variable (mangled) -> expected Python value
        self.keys = keys                          # expected _hy_macros keys (Hy spelling; hy.mangle gives the key), or None
        self.rkeys = rkeys                        # expected _hy_reader_macros keys, or None
        self.local_only = local_only


def client_text(p, c):
    lines = [f";; client {c.mod} of {p.name}; shape {c.shape}"] + c.requires
    for i, (head, mac, tr) in enumerate(c.uses):
        f = (lambda k, mac=mac, tr=tr: p.val(mac, tr(k)))
        lines.append(f"(setv v{i} ({head} 2))")
        c.expect[f"v{i}"] = f(2)
        lines.append(f"(defn f{i} [x] ({head} x))")
        lines.append(f"(defclass K{i} [] (setv a{i} ({head} 3)) (defn meth [self x] ({head} x)))")
        lines.append(f"(setv ev{i} (hy.eval '({head} 5)))")
        c.expect[f"ev{i}"] = f(5)
        lines.append(f"(setv mx{i} (hy.repr (hy.macroexpand '({head} q))))")
    lines += c.extra
    return "\n".join(lines) + "\n"


def ident(k):
    return k


def catalogue(p):
    """The fixed catalogue: one client module per shape of `require`."""
    P = p.name
    out = []
    M = ("macs", "m1")
    out.append(Client("bare", "c_bare", [f"(require {P}.macs)"],
                      [(f"{P}.macs.m1", M, ident), (f"{P}.macs.my-mac", ("macs", "my-mac"), ident),
                       (f"{P}.macs.☘", ("macs", "☘"), ident)],
                      keys=[f"{P}.macs.m1", f"{P}.macs.my-mac", f"{P}.macs.is-ok?", f"{P}.macs.☘"]))
    # module prologues: whatever the module starts with (a docstring, an import of hy itself under another name, of a submodule of
    # hy, a __future__ import), the names the compiled code needs at run time (hy.macros.require, hy.models for quoted forms, hy.eval)
    # are there when the module is loaded from bytecode, where no compiler has put `hy` into the module beforehand
    for tag, pro in (("import-hy-as", ["(import hy :as hylang)"]), ("docstring-import-hy-as", ['"module docstring"', "(import hy :as hylang)"]),
                     ("import-hy", ["(import hy)"]), ("import-hy-submodule", ["(import hy.models)"]),
                     ("import-hy-submodule-as", ["(import hy.models :as hm)"]), ("from-hy-import", ["(import hy [models])"]),
                     ("future-import", ['"doc"', "(import __future__ [annotations])", "(import hy :as hylang)"]),
                     ("import-other-as-hy-later", ["(import hy :as hylang)", "(setv q0 1)"])):
        out.append(Client(f"prologue/{tag}", "c_pro_" + tag.replace("-", "_"), pro + [f"(require {P}.macs [m1 my-mac])"],
                          [("m1", M, ident), ("my-mac", ("macs", "my-mac"), ident)],
                          extra=["(setv quoted (hy.repr '(a b)))", "(defmacro own-mac [x] `(+ ~x 1))", "(setv own (own-mac 1))"],
                          expect={"quoted": "'(a b)", "own": 2}, keys=["m1", "my-mac", "own-mac"]))
    out.append(Client("as", "c_as", [f"(require {P}.macs :as M)"],
                      [("M.m1", M, ident), ("M.is-ok?", ("macs", "is-ok?"), ident)],
                      keys=["M.m1", "M.my-mac", "M.is-ok?", "M.☘"]))
    out.append(Client("names", "c_names", [f"(require {P}.macs [m1 my-mac _priv])"],
                      [("m1", M, ident), ("my-mac", ("macs", "my-mac"), ident), ("_priv", ("macs", "_priv"), ident)],
                      keys=["m1", "my-mac", "_priv"]))
    out.append(Client("names-as", "c_names_as", [f"(require {P}.macs [m1 :as first-one is-ok? my-mac :as ok! m1 :as again])"],
                      [("first-one", M, ident), ("is-ok?", ("macs", "is-ok?"), ident), ("ok!", ("macs", "my-mac"), ident),
                       ("again", M, ident)],
                      keys=["first-one", "is-ok?", "ok!", "again"]))
    out.append(Client("star", "c_star", [f"(require {P}.macs *)"],
                      [("m1", M, ident), ("☘", ("macs", "☘"), ident)],
                      extra=["(setv priv-visible (try (hy.eval '(_priv 1)) (except [e NameError] \"NameError\")))"],
                      expect={"priv_visible": "NameError"},
                      keys=["m1", "my-mac", "is-ok?", "☘"]))
    out.append(Client("star-exports", "c_star_exports", [f"(require {P}.exp * {P}.exp2 *)"],
                      [("e1", ("exp", "e1"), ident), ("_e3", ("exp", "_e3"), ident), ("x2", ("exp2", "x2"), ident)],
                      extra=["(setv e2-visible (try (hy.eval '(e2 1)) (except [e NameError] \"NameError\")))",
                             "(setv x1-visible (try (hy.eval '(x1 1)) (except [e NameError] \"NameError\")))"],
                      expect={"e2_visible": "NameError", "x1_visible": "NameError"},
                      keys=["e1", "_e3", "x2"]))
    out.append(Client("macros-keyword", "c_macros_kw",
                      [f"(require {P}.macs :macros [m1 :as km])", f"(require {P}.exp :macros *)",
                       f"(require {P}.exp2 :macros :as X2)"],
                      [("km", M, ident), ("e1", ("exp", "e1"), ident), ("X2.x2", ("exp2", "x2"), ident)],
                      keys=["km", "e1", "_e3", "X2.x2"]))
    out.append(Client("readers", "c_readers", [f"(require {P}.macs :readers [r1 rnone])"],
                      extra=["(setv rv [#r1 #rnone 7])", "(setv m1-visible (try (hy.eval '(m1 1)) (except [e NameError] \"NameError\")))"],
                      expect={"rv": [p.reader_value("macs", "r1"), 7], "m1_visible": "NameError"},
                      keys=[], rkeys=["r1", "rnone"]))
    out.append(Client("readers-star", "c_readers_star", [f"(require {P}.macs :readers *)"],
                      extra=["(setv rv [#r1 #rnone #rwrap (+ 1 2)])"],
                      expect={"rv": [p.reader_value("macs", "r1"), ["rwrap", 3]]},
                      keys=[], rkeys=["r1", "rnone", "rwrap"]))
    out.append(Client("macros+readers", "c_both",
                      [f"(require {P}.macs :macros [m1] :readers [r1])", f"(require {P}.exp :readers * :macros [e2 :as ee])",
                       f"(require {P}.macs :readers [rwrap] :as RM)"],
                      [("m1", M, ident), ("ee", ("exp", "e2"), ident), ("RM.my-mac", ("macs", "my-mac"), ident)],
                      extra=["(setv rv [#r1 #er #rwrap #r1])"],
                      expect={"rv": [p.reader_value("macs", "r1"), p.reader_value("exp", "er"), ["rwrap", p.reader_value("macs", "r1")]]},
                      keys=["m1", "ee", "RM.m1", "RM.my-mac", "RM.is-ok?", "RM.☘"], rkeys=["r1", "er", "rwrap"]))
    out.append(Client("relative", "c_relative",
                      ["(require .macs [m1 :as rel1])", "(require .macs)", "(require . [exp])", "(require . [exp2 :as Z])",
                       "(require .my-macs :as HM)"],
                      [("rel1", M, ident), ("macs.my-mac", ("macs", "my-mac"), ident), ("exp.e1", ("exp", "e1"), ident),
                       ("Z.x1", ("exp2", "x1"), ident), ("HM.h-2", ("my_macs", "h-2"), ident)],
                      keys=["rel1", "macs.m1", "macs.my-mac", "macs.is-ok?", "macs.☘", "exp.e1", "exp.e2", "exp._e3",
                            "Z.x1", "Z.x2", "HM.h1", "HM.h-2"]))
    out.append(Client("relative-up", "sub.deep",
                      ["(require ..other.om [o1 :as up1])", "(require ..other.om)", "(require . [sib :as S])", "(require .sib)"],
                      [("up1", ("other.om", "o1"), ident), ("other.om.o1", ("other.om", "o1"), ident),
                       ("S.s1", ("sub.sib", "s1"), ident), ("sib.s1", ("sub.sib", "s1"), ident)],
                      keys=["up1", "other.om.o1", "S.s1", "sib.s1"]))
    out.append(Client("several-modules", "c_several",
                      [f"(require {P}.macs [m1] {P}.exp :as E {P}.my-macs {P}.exp2 * {P}.other [om-init])"],
                      [("m1", M, ident), ("E.e1", ("exp", "e1"), ident), (f"{P}.my-macs.h1", ("my_macs", "h1"), ident),
                       ("x2", ("exp2", "x2"), ident), ("om-init", ("other", "om-init"), ident)],
                      keys=["m1", "E.e1", "E._e3", f"{P}.my-macs.h1", f"{P}.my-macs.h-2", "x2", "om-init"]))
    out.append(Client("submodule-as-name", "c_submodule",
                      [f"(require {P} [macs exp2 :as X])", f"(require {P} [empty])"],
                      [("macs.m1", M, ident), ("X.x1", ("exp2", "x1"), ident)],
                      keys=["macs.m1", "macs.my-mac", "macs.is-ok?", "macs._priv", "macs.☘", "X.x1", "X.x2"]))
    out.append(Client("hyphenated", "c_hyphen",
                      [f"(require {P}.my-macs [h-2 :as hy-phen h1])", f"(require {P}.my-macs)"],
                      [("hy-phen", ("my_macs", "h-2"), ident), ("h1", ("my_macs", "h1"), ident),
                       (f"{P}.my-macs.h-2", ("my_macs", "h-2"), ident)],
                      keys=["hy-phen", "h1", f"{P}.my-macs.h1", f"{P}.my-macs.h-2"]))
    lv = p.val(M, 2)
    out.append(Client("local", "c_local", [],
                      extra=[f"(defn lf [x] (require {P}.macs [m1 :as lm my-mac]) [(lm x) (my-mac x)])",
                             f"(setv lv (lf 2))",
                             f"(defn lnames [] (require {P}.macs [m1 :as lm] {P}.exp :as LE) (sorted (.keys (local-macros))))",
                             "(setv ln (lnames))",
                             f"(defn leval [x] (require {P}.macs [m1 :as lm]) (hy.eval `(lm ~x) :macros (local-macros)))",
                             "(setv le (leval 5))",
                             f"(defclass LC [] (require {P}.exp [e1 :as cm]) (setv cv (cm 2)))",
                             f"(setv lc (lfor x [1 2] (do (require {P}.exp2 [x1 :as xm]) (xm x))))",
                             "(setv leaked (try (hy.eval '(lm 1)) (except [e NameError] \"NameError\")))"],
                      expect={"lv": [lv, p.val(("macs", "my-mac"), 2)], "ln": ["LE._e3", "LE.e1", "lm"],
                              "le": p.val(M, 5), "lc": [p.val(("exp2", "x1"), 1), p.val(("exp2", "x1"), 2)], "leaked": "NameError"},
                      keys=[], local_only=True))
    out.append(Client("nested-position", "c_nested",
                      [f"(do (require {P}.macs [m1 :as in-do]))",
                       f"(try (require {P}.exp [e1 :as in-try]) (except [e Exception] None))",
                       f"(when True (require {P}.exp2 [x1 :as in-when]))"],
                      [("in-do", M, ident), ("in-try", ("exp", "e1"), ident), ("in-when", ("exp2", "x1"), ident)],
                      keys=["in-do", "in-try", "in-when"]))
    out.append(Client("own-macros", "c_own",
                      [f"(require {P}.macs [m1 :as base])", "(defmacro own [x] `(base (+ ~x 1)))",
                       "(defreader ownr (setv form (.parse-one-form &reader)) `(own ~form))"],
                      [("own", M, lambda k: k + 1), ("base", M, ident)],
                      extra=["(setv ro #ownr 4)", "(setv own-names (sorted (.keys _hy_macros)))", "(setv own-readers (sorted (.keys _hy_reader_macros)))"],
                      expect={"ro": p.val(M, 5), "own_names": ["base", "own"], "own_readers": ["ownr"]},
                      keys=["base", "own"], rkeys=["ownr"]))
    out.append(Client("re-export", "c_reexport",
                      [f"(require {P}.c-names-as [first-one :as second-hand ok!])", f"(require {P}.c-as :as CA)"],
                      [("second-hand", M, ident), ("ok!", ("macs", "my-mac"), ident), ("CA.M.m1", M, ident)],
                      keys=["second-hand", "ok!", "CA.M.m1", "CA.M.my-mac", "CA.M.is-ok?", "CA.M.☘"]))
    out.append(Client("one-shot", "c_oneshot", [],
                      [(f"hy.R.{P}/macs.m1", M, ident), (f"hy.R.{P}/other/om.o1", ("other.om", "o1"), ident)],
                      keys=[]))
    out.append(Client("empty-source", "c_empty",
                      [f"(require {P}.empty)", f"(require {P}.empty *)", f"(require {P}.macs [])", f"(require {P}.macs :readers [])"],
                      extra=[f"(import {P}.empty [plain-empty])"], expect={"plain_empty": p.salt}, keys=[], rkeys=[]))
    return out


def untaken(p):
    """`require` in a branch that the running program does not take (reported separately)."""
    P = p.name
    return Client("untaken-branch", "c_untaken",
                  [f"(when False (require {P}.exp [e2 :as never]))",
                   f"(if True (require {P}.exp [e1 :as taken]) (require {P}.exp [e2 :as not-taken]))"],
                  [("taken", ("exp", "e1"), ident)],
                  extra=["(setv never-ev (try (hy.eval '(never 1)) (except [e NameError] \"NameError\")))",
                         "(setv not-taken-ev (try (hy.eval '(not-taken 1)) (except [e NameError] \"NameError\")))"])


def introspection(p):
    """A module without macros of its own that looks at the documented per-module table."""
    return Client("introspection-without-macros", "c_introspect", [],
                  extra=["(setv n-macros (len _hy_macros))", "(setv own-table (in \"_hy_macros\" (globals)))"],
                  expect={"n_macros": 0, "own_table": True})


def side_effect_canary(p):
    """A module WITH a compile-time side effect: the two ways of loading must differ (must-fail canary)."""
    return Client("canary-compile-time-side-effect", "c_canary", [],
                  extra=["(eval-when-compile (setv made-at-compile-time 1))",
                         "(setv seen (in \"made_at_compile_time\" (globals)))"])


def random_clients(p, rng, n):
    """n random client modules: 2-5 require forms in random shapes with fresh aliases."""
    P = p.name
    out = []
    mods = ["macs", "exp", "exp2", "my_macs", "sub.sib", "other.om"]
    for ci in range(n):
        reqs, uses, fresh = [], [], [0]

        def alias():
            fresh[0] += 1
            return rng.choice(["a", "b-x", "q?", "Z"]) + str(fresh[0])

        star_done = set()
        for _ in range(rng.randint(2, 5)):
            mod = rng.choice(mods)
            hymod = f"{P}." + mod.replace("my_macs", "my-macs")
            pub = EXPORTS[mod]
            allm = MACRO_MODULES[mod]
            kind = rng.choice(["bare", "as", "names", "names", "star", "kwnames"])
            if kind == "bare":
                reqs.append(f"(require {hymod})")
                mac = rng.choice(pub)
                uses.append((f"{hymod}.{mac}", (mod, mac), ident))
            elif kind == "as":
                a = alias()
                reqs.append(f"(require {hymod} :as {a})")
                mac = rng.choice(pub)
                uses.append((f"{a}.{mac}", (mod, mac), ident))
            elif kind in ("names", "kwnames"):
                picked = rng.sample(allm, rng.randint(1, len(allm)))
                parts = []
                for mac in picked:
                    a = alias()
                    parts.append(f"{mac} :as {a}")
                    uses.append((a, (mod, mac), ident))
                kw = ":macros " if kind == "kwnames" else ""
                reqs.append(f"(require {hymod} {kw}[{' '.join(parts)}])")
            elif mod not in star_done:
                star_done.add(mod)
                reqs.append(f"(require {hymod} *)")
                mac = rng.choice(pub)
                uses.append((mac, (mod, mac), ident))
        rng.shuffle(uses)
        extra = []
        if rng.random() < 0.5:
            reqs.append(f"(require {P}.macs :readers [{rng.choice(['r1', 'r1 rwrap', 'rnone r1'])}])")
            extra.append("(setv rv [#r1 1])")
        out.append(Client("random", f"c_rand{ci}", reqs, uses[:5], extra=extra,
                          expect={"rv": [p.reader_value("macs", "r1"), 1]} if extra else None))
    return out


def write_package(root, p, clients):
    """Write the package below `root`; returns {module name: source path} for macro modules and clients."""
    P = p.name
    base = os.path.join(root, P)
    files = {}

    def put(mod, text):
        parts = mod.split(".") if mod else ["__init__"]
        path = os.path.join(base, *parts[:-1], parts[-1] + ".hy")
        os.makedirs(os.path.dirname(path), exist_ok=True)
        with open(path, "w", encoding="utf-8") as f:
            f.write(text)
        files[f"{P}.{mod}" if mod else P] = path
        return path

    put("", f";; package {P}\n")
    for mod in MACRO_MODULES:
        if mod == "other":
            continue
        put(mod, macro_module_text(p, mod))
    # subpackages
    for sub in ("sub", "other"):
        path = put(sub + ".__init__", macro_module_text(p, "other") if sub == "other" else f";; subpackage {sub}\n")
        del files[f"{P}.{sub}.__init__"]
        files[f"{P}.{sub}"] = path
    put("empty", f"(setv plain-empty {p.salt})\n")
    for c in clients:
        put(c.mod, client_text(p, c))
    return files
