"""C18 reading any text either yields models or raises a Hy syntax error."""
import gc
import itertools
import multiprocessing as mp
import random
import signal
import time

import hv.symx.core  # noqa: F401
import hy
from hy.reader.exceptions import LexException, PrematureEndOfInput

from hv.props import _c19_scan as sc
from hv.pyvc import targets

META = {
    "engine": "pyvc+ex",
    "level": "proof",
    "technique": "contract-based deductive verification of HyReader.try_parse_one_form (VCs from its source AST with the "
                 "@contextmanager as_current_reader inlined; z3): with every callee (slurp_space, getc, the dispatched handler, "
                 "read_default, fill_pos) allowed to return or to raise any exception class, every exception that escapes is a "
                 "LexException and HyReader._current_reader is restored; the part of the reader outside that wrapper (Lazy "
                 "stream, parse, parse_forms_until at top level, exception constructors computing line information) and "
                 "termination are decided by complete enumeration of short texts and token sequences and by the complete "
                 "one-edit neighbourhood of valid programs (exhaustive over a finite domain), plus deep-nesting inputs",
    "text": "try_parse_one_form: proved for all reader states and all behaviours of the handlers (65 paths): nothing but "
            "LexException (PrematureEndOfInput is one) escapes, whatever a handler raises - ValueError, RecursionError, "
            "SyntaxError, UnicodeError stand for `any Exception`. hy.read_many as a whole: every text up to the stated "
            "length over the syntax-significant alphabet, every sequence of up to the stated number of lexical tokens, and "
            "every one-character deletion/insertion/replacement of generated valid programs is read to the end; the "
            "observation must be a list of models or a LexException, and every read must finish (a watchdog turns a hang "
            "into an undecided obligation, never into a pass).",
    "note": "BaseException subclasses that are not Exceptions (KeyboardInterrupt, MemoryError is an Exception) pass through by "
            "design. The constructors LexException.from_reader / PrematureEndOfInput.from_reader are assumed not to raise in "
            "the proof; that assumption (compute_lineinfo indexing the source lines) is what the enumeration exercises, "
            "including texts with the other line separators str.splitlines knows (FF, FS, GS, RS, NEL, LS, PS, CR).",
}

ALPHA_Q = list("()[]{}\"'`~@#;:.\\a1_*^!= \nfrb-")
ALPHA_EXTRA = list("xNu0eEjJ,+/|&%$?<>\t\r\x0c\x1c\x85 ﻿\x00\xa0é٣") + ["\ud800"]
TOKENS = ["(", ")", "[", "]", "{", "}", "#(", "#{", "#[", "#[[", "]]", "#[f[", "]f]", "#[x[", "]x]", '"', 'f"', 'r"', 'b"', 'rb"', 'ff"',
          'z"', "{{", "}}", "\\", '\\"', "\\N{", "\\x4", "\\u12", "\\777", "'", "`", "~", "~@", "#", "#_", "#*", "#**", "#^", "#!",
          ";", ":", "::", ".", "..", "a.", ".a", "a..b", "1", "1.", "1e", "0x", "1j", "1_", "_1", "-", "a", "=", "!", "!r", ":>", " ",
          "\n", "#a", "\x00", "é", " ", "\r", "\x0c"]
TOKENS4 = ["(", ")", "[", "]", "{", "}", "#[[", "]]", "#[f[", "]f]", '"', 'f"', 'rb"', "{{", "}}", "\\", "\\N{", "'", "~@", "#", "#_", "#*", "#^", ";",
           ":", ".", "a.", "1", "a", "=", "!r", ":>", " ", "\n", "\x00", "é"]
DEEP = {"parens": "(" * 4000 + ")" * 4000, "open-parens": "(" * 4000, "quotes": "'" * 4000 + "a", "brackets": "[" * 20000,
        "f-fields": 'f"{' * 600 + "x" + '}"' * 600, "tildes": "~" * 4000 + "a", "discards": "#_ " * 4000 + "a", "unpack": "#* " * 4000 + "a",
        "annotations": "#^ " * 3000 + "a", "sets": "#{" * 3000, "spec-nesting": 'f"{x :' + "{y :" * 500 + "}" * 501 + '"',
        "long-flat": "a " * 50000, "long-string": '"' + "x" * 200000 + '"', "long-comment": ";" * 200000,
        "many-lines": "a\n" * 30000 + "(", "bracket-long": "#[" + "=" * 5000 + "[" + "]" * 5000,
        # long single tokens, well-formed and malformed: reading time must stay (near-)linear in the length of a token
        "long-identifier": "x" * 5000, "long-dotted-identifier": ".".join(["part"] * 1000),
        "long-identifier-double-dot-at-end": "the-quick-brown-fox-jumps-over-the-lazy-dog-again-and-again" * 3 + "..",
        "long-dotted-identifier-double-dot-inside": "application.configuration.database_connection_pool..maximum_size",
        "long-identifier-trailing-dot": "x" * 3000 + ".", "long-identifier-leading-dots": "." * 3000 + "x",
        "many-double-dots": "a..b" * 500, "long-number": "1" * 5000, "long-hex": "0x" + "f" * 5000, "long-float": "1." + "0" * 5000 + "e5",
        "long-complex": "1" * 2000 + "+" + "2" * 2000 + "j", "long-number-with-separators": "1_" * 3000 + "1", "long-keyword": ":" + "k" * 5000,
        "long-keyword-with-dots": ":" + "a." * 2000, "long-symbol-with-digits-and-dots": "1." * 2000 + "a", "long-sign-run": "-" * 5000,
        "long-reader-macro-name": "#" + "m" * 5000 + " 1", "long-string-of-escapes": '"' + "\\n" * 20000 + '"',
        "long-named-escape": '"\\N{' + "A" * 5000 + '}"', "long-format-spec": 'f"{x :' + ">" * 5000 + '}"',
        # long runs of what stands *between* forms (at top level the reader handles these outside the per-form error conversion)
        "long-space-run-between-forms": "a" + " " * 5000 + "b", "long-space-run-before-the-first-form": " " * 5000 + "1",
        "long-space-run-after-the-last-form": "1" + " " * 5000, "only-spaces": " " * 5000, "only-newlines": "\n" * 5000,
        "long-mixed-whitespace-run": "a" + " \t\n\r\x0c" * 1500 + "b", "long-space-run-in-a-list": "[a" + " " * 5000 + "b]",
        "long-space-run-in-an-unclosed-list": "(a" + " " * 5000, "long-space-run-in-an-f-string-field": 'f"{' + " " * 5000 + 'x}"',
        "long-run-of-comment-lines": ";c\n" * 5000 + "a", "long-run-of-commas-and-spaces": "[a" + " , " * 2000 + "b]",
        "long-space-run-after-a-reader-macro": "#*" + " " * 5000 + "a", "long-space-run-after-a-quote": "'" + " " * 5000 + "a",
        "long-run-of-shebang-like-lines": "#!x\n" + "\n" * 3000 + "a", "long-space-run-before-a-closing-bracket": "(a" + " " * 5000 + ")",
        "long-non-breaking-space-run": "a" + "\xa0" * 3000 + "b", "long-space-run-in-a-dict": "{a" + " " * 5000 + "b}"}

# nesting at *moderate* depths (below every recursion limit): reading time must not grow exponentially with the depth.  The very deep
# texts of DEEP end early with an error; a reader that does twice the work per level is only visible between depths ~10 and ~60.
NEST = {"parens": ("(", "a", ")"), "brackets": ("[", "a", "]"), "braces": ("{", "a b", "}"), "sets": ("#{", "a", "}"), "tuples": ("#(", "a", ")"),
        "quotes": ("'", "a", ""), "quasiquote-unquote": ("`~", "a", ""), "unquote-splice": ("`[~@", "a", "]"), "discards": ("#_ ", "a b", ""),
        "unpack": ("#* ", "a", ""), "annotations": ("#^ ", "a b", ""), "f-string fields": ('f"{', "x", '}"'), "t-string fields": ('t"{', "x", '}"'),
        "f-string fields with conversion": ('f"{', "x", ' !r}"'), "f-string debug fields": ('f"{', "x", ' = }"'),
        "format specs": ('f"{x :{', "y", '}}"'), "f-string field in a list": ('[f"{', "x", '}"]'), "f-string in a format spec": ('f"{x :{f"{', "y", '}"}}"'),
        "calls": ("(f ", "a", " b)"), "dict values": ("{k ", "v", "}"), "mixed brackets": ("([{", "a b", "}])"), "dotted calls": ("(.m ", "o", ")"),
        "bracket f-string fields": ("#[f[{[", "x", "]}]f]"), "reader macro calls": ("#* #^ ", "a b", "")}
NEST_DEPTHS = tuple(range(1, 21)) + (24, 28, 32)

_TEXTS = None


class _NoProgress(BaseException):
    pass


def _alarm(signum, frame):
    raise _NoProgress()


def observe(text):
    """None when reading `text` ends with models or a LexException; otherwise what happened instead.  "Always terminates": a text of
    a few characters is read in well under a millisecond, so one that is still being read after 10 s (60 s for texts over 1000
    characters) is reported as not terminating - with the text, so that it can be replayed."""
    limit = 10 if len(text) <= 1000 else 60
    if signal.getsignal(signal.SIGALRM) is not _alarm:
        signal.signal(signal.SIGALRM, _alarm)
        signal.signal(signal.SIGVTALRM, _alarm)
    # the limit is on the CPU time of the reading itself (a verdict must not flip because 16 workers compete for the machine);
    # wall-clock time is a backstop only
    signal.setitimer(signal.ITIMER_VIRTUAL, limit)
    signal.setitimer(signal.ITIMER_REAL, 6 * limit)
    try:
        n = 0
        for _ in hy.read_many(text):
            n += 1
            if n > 100000:
                return "other: more models than characters"
        return None
    except LexException:
        return None
    except _NoProgress:
        return f"no result after {limit} s of CPU time: reading does not terminate (or is slower by four orders of magnitude)"
    except BaseException as e:  # noqa: BLE001
        return "%s: %s" % (type(e).__name__, str(e)[:120])
    finally:
        signal.setitimer(signal.ITIMER_VIRTUAL, 0)
        signal.setitimer(signal.ITIMER_REAL, 0)


def _gen(spec):
    kind = spec[0]
    if kind == "chars":
        _, alpha, n, first = spec
        for rest in itertools.product(alpha, repeat=n - 1):
            yield first + "".join(rest)
    elif kind == "tokens":
        _, n, first = spec
        for rest in itertools.product(TOKENS, repeat=n - 1):
            yield first + "".join(rest)
    elif kind == "tokens4":
        _, n, first = spec
        for rest in itertools.product(TOKENS4, repeat=n - 1):
            yield first + "".join(rest)
    elif kind == "edits":
        _, prog = spec
        alpha = ALPHA_Q + ALPHA_EXTRA[:12]
        for i in range(len(prog) + 1):
            if i < len(prog):
                yield prog[:i] + prog[i + 1:]
                for c in alpha:
                    yield prog[:i] + c + prog[i + 1:]
            for c in alpha:
                yield prog[:i] + c + prog[i:]
    elif kind == "deep":
        yield DEEP[spec[1]]
    elif kind == "nest":
        o, c, e = NEST[spec[1]]
        for d in NEST_DEPTHS:           # increasing depth: the first text that hangs ends the family (see _work)
            yield o * d + c + e * d
            yield o * d + c + e * (d - 1)      # one closer missing
            yield o * d + c                    # nothing closed


def _work(spec):
    from hv.core import roomy_call
    return roomy_call(_work1, spec)          # one large frame for everything below: no data-stack chunk thrash in the recursive reader


def _work1(spec):
    t0 = time.time()
    n = 0
    bad = None
    for text in _gen(spec):
        n += 1
        r = observe(text)
        if r is not None and bad is None:
            bad = (text if len(text) < 300 else text[:120] + "..." + text[-60:], r)
        if r is not None and r.startswith("no result after"):
            break               # every further text of this family that hangs would cost the full time limit again
    return spec[0], n, bad, time.time() - t0


def run(chk):
    targets.c18_try_parse(chk)
    chk.fn("hy/reader/__init__.py::read_many", "hy/reader/hy_reader.py::HyReader.parse", "hy/reader/hy_reader.py::HyReader.parse_forms_until",
           "hy/reader/hy_reader.py::HyReader.read_default", "hy/reader/hy_reader.py::as_identifier", "hy/reader/hy_reader.py::HyReader.read_chars_until",
           "hy/reader/exceptions.py::LexException.from_reader", "hy/errors.py::HySyntaxError.__init__")
    quick = chk.tier == "quick"
    full = ALPHA_Q + ALPHA_EXTRA
    specs = []
    groups = {}

    def add(group, spec):
        specs.append(spec)
        groups.setdefault(group, []).append(len(specs) - 1)
    # all short texts: length 1..L1 over the full alphabet, length L1+1.. over the core alphabet
    L1, L2 = (3, 4) if quick else (4, 5)
    for n in range(1, L1 + 1):
        for c in full:
            add("texts/every-short-text-over-the-full-alphabet", ("chars", full, n, c))
    core = ALPHA_Q[:22] if quick else ALPHA_Q
    for n in range(L1 + 1, L2 + 1):
        for c in core:
            add("texts/every-longer-text-over-the-core-alphabet", ("chars", core, n, c))
    tiny = ALPHA_Q[:14]           # ( ) [ ] { } " ' ` ~ @ # ; :
    L3 = 5 if quick else 6
    for c in tiny:
        add("texts/every-still-longer-text-over-the-delimiter-characters", ("chars", tiny, L3, c))
    NT = 3
    for n in range(1, NT + 1):
        for t in TOKENS:
            add("tokens/every-sequence-of-up-to-3-lexical-tokens", ("tokens", n, t))
    if not quick:
        global TOKENS4
        for t in TOKENS4:
            add("tokens/every-sequence-of-4-frequent-tokens(thorough)", ("tokens4", 4, t))
    nprog = 12 if quick else 150
    progs = [p for p in sc.programs(chk.seed + 18, nprog * 3) if 20 <= len(p) <= (90 if quick else 160)][:nprog]
    for p in progs:
        add("edits/every-one-character-edit-of-generated-valid-programs", ("edits", p))
    for name in DEEP:
        add(f"deep/{name}", ("deep", name))
    for name in NEST:
        add(f"nest/{name}: every depth up to {NEST_DEPTHS[-1]}, closed and unclosed, is read or rejected within the time limit", ("nest", name))
    chk.bounds["texts"] = f"all texts of length <= {L1} over {len(full)} characters and of length <= {L2} over {len(core)} core characters"
    chk.bounds["tokens"] = f"all sequences of <= 3 of {len(TOKENS)} lexical tokens" + ("" if quick else f" and of 4 of {len(TOKENS4)}")
    chk.bounds["delimiters"] = f"all texts of length {L3} over {len(tiny)} delimiter characters"
    chk.bounds["edits"] = f"{len(progs)} generated programs (seed {chk.seed + 18}), every deletion, and every insertion/replacement with {len(ALPHA_Q) + 12} characters"
    if chk.jobs > 1:
        gc.collect(); gc.freeze()
        with mp.get_context("fork").Pool(min(chk.jobs, 16)) as pool:
            asyncs = [pool.apply_async(_work, (s,)) for s in specs]
            results = []
            for a in asyncs:
                try:
                    results.append(a.get(timeout=1800))
                except mp.TimeoutError:
                    results.append(None)
    else:
        results = [_work(s) for s in specs]
    for group in groups:
        n = 0
        bad = None
        hung = False
        for i in groups[group]:
            r = results[i]
            if r is None:
                hung = True
                continue
            n += r[1]
            bad = bad or r[2]
        chk.evaluations += n
        kind = "exhaustive_finite" if not group.startswith(("deep/", "nest/")) else "bounded"
        if bad:
            chk.ob(group, False, "ex", kind, detail=f"reading {bad[0]!r} raised {bad[1]}", witness={"input": bad[0], "observed": bad[1]},
                   replay={"confirmed": True, "input": bad[0], "observed": bad[1]})
        elif hung:
            chk.ob(group, None, "ex", kind, detail="a worker did not finish within 1800 s (termination undecided)")
        else:
            chk.ob(group, True, "ex", kind, detail=f"{n} texts read to the end")
    chk.extra["texts_read"] = chk.evaluations
    # canaries: the observer must flag a non-Lex exception, and the watchdog path must not be a pass
    real = hy.reader.hy_reader.as_identifier
    try:
        hy.reader.hy_reader.as_identifier = lambda *a, **k: (_ for _ in ()).throw(KeyboardInterrupt())
        flagged = observe("a") is not None
    finally:
        hy.reader.hy_reader.as_identifier = real
    chk.canary("a reader that lets a non-Exception escape is flagged by the observer", flagged)
    chk.trust("z3 (try_parse_one_form VCs)", "CPython's exception matching (issubclass) as used by the VC generator")
    chk.assume("LexException.from_reader and PrematureEndOfInput.from_reader do not raise (exercised by the enumeration, not proved)")


def replay(path):
    import json
    d = json.load(open(path))
    rp = d.get("replay") or {}
    if rp.get("input") is not None:
        print("input:", repr(rp["input"]))
        print("observed now:", observe(rp["input"]) or "models or LexException (property holds)")
        return 1
    from hv.replay import replay_file
    return replay_file(path)
