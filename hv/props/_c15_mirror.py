"""C15 part 2: the run-time call emitted by `compile_require` mirrors the compile-time call the rule makes.

The real rule is run (through the real hy_compile) on every form of an enumerated product of `require` shapes.  The
compile-time calls are recorded by wrappers around hy.core.result_macros.require / require_reader (the names the rule
calls) and hy.macros.enable_readers; the emitted module AST is searched, in document order, for calls of
hy.macros.require / require_vals / require_reader, whose arguments are evaluated literally.  Then the emitted code is
executed in a fresh module of the same name, and the macro tables it builds are compared with the tables the
compilation left in the compile-time module.
"""
import ast
import multiprocessing
import os
import sys
import types

import hy.core.result_macros as rm
import hy.macros as hmac
from hy.compiler import hy_compile
from hy.errors import HyLanguageError
from hy.reader import read_many
from hy.reader.hy_reader import HyReader

from hv.props import _c15_gen as gen

_W = {}


# ----------------------------------------------------------------------------------------------------------------------
# the form space
# ----------------------------------------------------------------------------------------------------------------------
def module_kinds(P):
    """kind -> (module text, target module name, macro names usable in name lists (or submodule names), has readers,
    names are submodules)"""
    return {
        "absolute": (f"{P}.macs", f"{P}.tgt", ["m1", "my-mac"], True, False),
        "hyphenated": (f"{P}.my-macs", f"{P}.tgt", ["h1", "h-2"], False, False),
        "relative": (".macs", f"{P}.tgt", ["is-ok?", "_priv"], True, False),
        "relative-up": ("..other.om", f"{P}.sub.tgt", ["o1"], False, False),
        "package-with-macros": (f"{P}.other", f"{P}.tgt", ["om-init"], False, False),
        "exports": (f"{P}.exp", f"{P}.tgt", ["e2", "_e3"], True, False),
        "dot (names are submodules)": (".", f"{P}.tgt", ["macs", "exp2"], False, True),
        "package (names are submodules)": (f"{P}", f"{P}.tgt", ["exp", "empty"], False, True),
        "module without macros": (f"{P}.empty", f"{P}.tgt", [], False, False),
    }


def importlikes(names, thorough):
    out = [None, "*", ":as A", ":as my-prefix", "[]", "[nope]"]
    if names:
        n1 = names[0]
        out += [f"[{n1}]", f"[{n1} :as a-1]", f"[{n1} {n1} :as twice]"]
        if len(names) > 1:
            n2 = names[1]
            out += [f"[{n1} {n2}]", f"[{n1} :as a-1 {n2}]", f"[{n1} {n2} :as b?]", f"[{n1} :as a-1 {n2} :as b?]", f"[{n2} {n1}]"]
            if thorough:
                out += [f"[{n1} :as {n2} {n2} :as {n1}]", f"[{n2} nope]"]
    return out


def reader_specs(has_readers, modkind):
    if modkind == "absolute":
        return [None, ":readers [r1]", ":readers [r1 rnone]", ":readers [rwrap r1]", ":readers *", ":readers []", ":readers [nope]"]
    if modkind == "exports":
        return [None, ":readers [er]", ":readers *"]
    if modkind == "relative":
        return [None, ":readers [rnone]", ":readers *"]
    return [None, ":readers *", ":readers [nope]"]


CONTEXTS = {
    "top": "{req}",
    "do": "(do {req} 1)",
    "try": "(try {req} (except [e Exception] (raise)))",
    "untaken": "(when False {req})",
    "fn": "(defn probe [] {req} (local-macros))",
    "class": "(defclass Probe [] {req} (setv found (local-macros)))",
}


def entry_texts(kind, spec, thorough):
    mod, tgt, names, has_readers, submods = spec
    for il in importlikes(names, thorough):
        kws = [""] if il is None else ["", ":macros "]
        for kw in kws:
            for rs in reader_specs(has_readers, kind):
                if rs is not None and "nope" in rs and il not in (None, "*"):
                    continue                      # an unknown reader name: refused whatever the macro part is
                parts_m = [] if il is None else [kw + il]
                if rs is None:
                    yield f"{mod} {' '.join(parts_m)}".strip()
                else:
                    yield f"{mod} {' '.join(parts_m + [rs])}".strip()
                    if parts_m:
                        yield f"{mod} {' '.join([rs] + parts_m)}".strip()


def all_cases(P, thorough):
    """[(module kind, context, form text, target module name)]"""
    kinds = module_kinds(P)
    cases = []
    for kind, spec in kinds.items():
        entries = list(entry_texts(kind, spec, thorough))
        for ctx in CONTEXTS:
            sel = entries if (thorough or ctx == "top") else entries[::3] if ctx == "fn" else entries[::6]
            for e in sel:
                cases.append((kind, ctx, f"(require {e})", spec[1]))
    # several entries in one form
    pairs = [
        ("absolute", f"{P}.macs [m1] {P}.exp :as E"), ("absolute", f"{P}.macs {P}.macs :as M {P}.macs *"),
        ("absolute", f"{P}.macs :readers [r1] {P}.macs [m1 :as x]"), ("absolute", f"{P}.macs [m1] :readers * {P}.exp :readers [er] *"),
        ("relative", f".macs [m1] .exp2 * . [my-macs :as H]"), ("hyphenated", f"{P}.my-macs [h-2 :as z] {P}.empty {P}.empty * {P}.other"),
        ("absolute", f"{P}.empty [] {P}.macs [] {P}.macs [m1]"), ("absolute", f"{P}.macs [m1 :as same] {P}.exp [e1 :as same]"),
    ]
    for kind, e in pairs:
        for ctx in CONTEXTS:
            cases.append((kind, ctx, f"(require {e})", f"{P}.tgt"))
    return cases


# ----------------------------------------------------------------------------------------------------------------------
# observation of one form
# ----------------------------------------------------------------------------------------------------------------------
def dotted_name(node):
    parts = []
    while isinstance(node, ast.Attribute):
        parts.append(node.attr)
        node = node.value
    if isinstance(node, ast.Name):
        parts.append(node.id)
        return ".".join(reversed(parts))
    return None


class _Calls(ast.NodeVisitor):
    """hy.macros.* calls in document order, with the assignment targets of require_vals."""

    def __init__(self):
        self.found = []

    def visit_Assign(self, node):
        if isinstance(node.value, ast.Call) and dotted_name(node.value.func) == "hy.macros.require_vals":
            tgt = node.targets[0]
            names = [e.id for e in tgt.elts] if isinstance(tgt, (ast.List, ast.Tuple)) else None
            self.found.append(("require_vals", node.value, names))
            return
        self.generic_visit(node)

    def visit_Call(self, node):
        name = dotted_name(node.func)
        if name in ("hy.macros.require", "hy.macros.require_reader", "hy.macros.require_vals"):
            self.found.append((name.split(".")[-1], node, None))
        self.generic_visit(node)


def literal_call(call):
    return ([ast.literal_eval(a) for a in call.args], {k.arg: ast.literal_eval(k.value) for k in call.keywords})


def norm_assignments(a):
    if isinstance(a, str):
        return a
    return [[str(k), str(v)] for k, v in a]


def observe(text, ctx, tgt_name):
    """Compile `text` in context with recorders; returns dict (picklable)."""
    src = CONTEXTS[ctx].format(req=text)
    ct_mod = types.ModuleType(tgt_name)
    saved_mod = sys.modules.get(tgt_name)
    sys.modules[tgt_name] = ct_mod
    calls = []
    real_require, real_rr = rm.require, rm.require_reader

    def rec_require(source_module, target, *a, **k):
        r = real_require(source_module, target, *a, **k)
        calls.append(("require", source_module, target, a, k, r))
        return r

    def rec_rr(source_module, target, assignments):
        try:
            r = real_rr(source_module, target, assignments)
        except BaseException:
            calls.append(("require_reader", source_module, target, assignments, "raised"))
            raise
        calls.append(("require_reader", source_module, target, assignments, r))
        return r

    # (enable_readers finds its module through the caller's frame, so it is observed by its effect on the reader instead)
    rm.require, rm.require_reader = rec_require, rec_rr
    reader = HyReader()
    out = {"src": src}
    try:
        try:
            tree = hy_compile(read_many(src, reader=reader), ct_mod)
        except HyLanguageError as e:
            out["error"] = f"{type(e).__name__}: {str(e)[:200]}"
            out["hy_error"] = True
            return out
        except Exception as e:
            out["error"] = f"{type(e).__name__}: {str(e)[:200]}"
            out["hy_error"] = False
            return out
    finally:
        rm.require, rm.require_reader = real_require, real_rr
        if saved_mod is None:
            sys.modules.pop(tgt_name, None)
        else:
            sys.modules[tgt_name] = saved_mod
    v = _Calls()
    v.visit(tree)
    out["clauses"] = compare(calls, v.found, ct_mod, reader, tgt_name)
    # must-fail canary input: the same comparison against a corrupted emission (an alias pair swapped, or the prefix
    # changed, in a copy of the first emitted require call)
    out["canary"] = None
    for kind, node, _ in v.found:
        if kind == "require":
            bad = ast.parse(ast.unparse(node), mode="eval").body
            for kw in bad.keywords:
                if kw.arg == "assignments" and isinstance(kw.value, ast.List) and kw.value.elts:
                    pair = kw.value.elts[0]
                    pair.elts = [pair.elts[1], ast.Constant(pair.elts[0].value + "x")]
                elif kw.arg == "prefix":
                    kw.value = ast.Constant(kw.value.value + "x")
            mutated = [(k, (bad if n is node else n), t) for k, n, t in v.found]
            out["canary"] = all(ok for _, ok, _ in compare(calls, mutated, ct_mod, reader, tgt_name) if ok is not None)
            break
    # behavioural mirror: execute the emitted code in a fresh module of the same name
    if ctx != "untaken":
        rt_mod = types.ModuleType(tgt_name)
        sys.modules[tgt_name] = rt_mod
        try:
            try:
                exec(compile(tree, "<hv-c15 emitted>", "exec"), rt_mod.__dict__)
                if ctx == "fn":
                    rt_local = rt_mod.probe()
                elif ctx == "class":
                    rt_local = rt_mod.Probe.found
                else:
                    rt_local = None
                det = []
                ct_tab, rt_tab = getattr(ct_mod, "_hy_macros", {}), getattr(rt_mod, "_hy_macros", {})
                if set(ct_tab) != set(rt_tab) or any(ct_tab[k] is not rt_tab[k] for k in ct_tab):
                    det.append(f"_hy_macros at compile time {sorted(ct_tab)}, after running the emitted code {sorted(rt_tab)}"
                               + ("" if set(ct_tab) != set(rt_tab) else "; same names, different macro objects: "
                                  + str([k for k in ct_tab if ct_tab[k] is not rt_tab[k]])))
                ct_r, rt_r = getattr(ct_mod, "_hy_reader_macros", {}), getattr(rt_mod, "_hy_reader_macros", {})
                if set(ct_r) != set(rt_r) or any(ct_r[k] is not rt_r[k] for k in ct_r):
                    det.append(f"_hy_reader_macros at compile time {sorted(ct_r)}, after running the emitted code {sorted(rt_r)}")
                if rt_local is not None:
                    ct_local = {}
                    for c in calls:
                        if c[0] == "require" and isinstance(c[2], dict):
                            ct_local.update({alias: fn for alias, _, fn in c[5]})
                    if set(ct_local) != set(rt_local) or any(ct_local[k] is not rt_local[k] for k in ct_local):
                        det.append(f"local macros at compile time {sorted(ct_local)}, (local-macros) at run time {sorted(rt_local)}")
                out["clauses"].append(("executing the emitted code reproduces the compile-time macro tables", not det, "; ".join(det)))
            except Exception as e:
                out["clauses"].append(("executing the emitted code reproduces the compile-time macro tables", False,
                                       f"running the emitted code raised {type(e).__name__}: {e}"))
        finally:
            if saved_mod is None:
                sys.modules.pop(tgt_name, None)
            else:
                sys.modules[tgt_name] = saved_mod
    out["n_ct"] = len(calls)
    out["n_emitted"] = len(v.found)
    out["emitted"] = [ast.unparse(n) for _, n, _ in v.found][:4]
    return out


def compare(calls, found, ct_mod, reader, tgt_name):
    """-> [(clause, ok, detail)]"""
    res = []
    ct_global = [c for c in calls if c[0] == "require" and not isinstance(c[2], dict)]
    ct_local = [c for c in calls if c[0] == "require" and isinstance(c[2], dict)]
    ct_readers = [c for c in calls if c[0] == "require_reader"]
    em_require = [f for f in found if f[0] == "require"]
    em_vals = [f for f in found if f[0] == "require_vals"]
    em_readers = [f for f in found if f[0] == "require_reader"]

    # ---- global require ----------------------------------------------------------------------------------------------
    # nested compile-time calls (a name that is a submodule makes require call itself) are internal: the rule's own calls
    # are those whose target is the module being compiled and that were made with the `compiler` keyword
    own = [c for c in ct_global if c[4].get("compiler") is not None]
    transferred = [c for c in own if c[5]]
    ok = len(transferred) == len(em_require)
    res.append(("run-time require emitted exactly for the compile-time calls that transferred something", ok,
                f"{len(own)} compile-time calls, {len(transferred)} transferred something, {len(em_require)} run-time calls emitted"))
    if ok:
        for c, (_, node, _) in zip(transferred, em_require):
            _, source_module, target, a, k, r = c
            try:
                args, kw = literal_call(node)
            except ValueError:
                res.append(("emitted require call has the compile-time arguments", False, f"not literal: {ast.unparse(node)}"))
                continue
            want_kw = {"target_module_name": ct_mod.__name__, "assignments": norm_assignments(k.get("assignments")),
                       "prefix": k.get("prefix", "")}
            okc = (args == [source_module, None] and kw == want_kw and target is ct_mod and not a
                   and set(k) == {"assignments", "prefix", "compiler"} and ct_mod.__name__ == tgt_name)
            res.append(("emitted require call has the compile-time arguments", okc,
                        f"emitted {ast.unparse(node)}; compile time: require({source_module!r}, <module {getattr(target, '__name__', target)}>, "
                        f"assignments={want_kw['assignments']!r}, prefix={want_kw['prefix']!r})"))
    # ---- local require -----------------------------------------------------------------------------------------------
    own_local = [c for c in ct_local if c[4].get("compiler") is not None]
    ok = len(own_local) == len(em_vals)
    if own_local or em_vals:
        res.append(("one run-time require_vals per local compile-time require", ok,
                    f"{len(own_local)} local compile-time calls, {len(em_vals)} require_vals emitted"))
    if ok:
        for c, (_, node, names) in zip(own_local, em_vals):
            _, source_module, target, a, k, r = c
            try:
                args, kw = literal_call(node)
            except ValueError:
                res.append(("emitted require_vals binds the compile-time local macros", False, f"not literal: {ast.unparse(node)}"))
                continue
            want_names = [hmac.local_macro_name(alias) for alias, _, _ in r]
            want_assign = [(m, m) for _, m, _ in r]
            okc = (args == [source_module, {}] and set(kw) == {"assignments"} and [tuple(x) for x in kw["assignments"]] == want_assign
                   and names == want_names)
            res.append(("emitted require_vals binds the compile-time local macros", okc,
                        f"emitted {names} = {ast.unparse(node)}; compile time transferred {[(al, m) for al, m, _ in r]} from {source_module!r}"))
    # ---- reader macros -----------------------------------------------------------------------------------------------
    done = [c for c in ct_readers if c[4] is True]
    ok = len(done) == len(em_readers)
    if ct_readers or em_readers:
        res.append(("run-time require_reader emitted exactly for the compile-time calls that went through", ok,
                    f"{len(ct_readers)} compile-time calls, {len(done)} returned true, {len(em_readers)} emitted"))
    if ok:
        for c, (_, node, _) in zip(done, em_readers):
            _, source_module, target, assignments, r = c
            try:
                args, kw = literal_call(node)
            except ValueError:
                res.append(("emitted require_reader call has the compile-time arguments", False, f"not literal: {ast.unparse(node)}"))
                continue
            want = assignments if isinstance(assignments, str) else list(assignments)
            okc = args == [source_module, None, want] and not kw and target is ct_mod
            res.append(("emitted require_reader call has the compile-time arguments", okc,
                        f"emitted {ast.unparse(node)}; compile time: require_reader({source_module!r}, <module>, {want!r})"))
        if done:
            builtin = set(HyReader().reader_macros)
            table = getattr(ct_mod, "_hy_reader_macros", {})
            extra = {k: v for k, v in reader.reader_macros.items() if k not in builtin}
            oke = set(extra) == set(table) and all(extra[k] is table[k] for k in table)
            res.append(("the required reader macros, and only they, are enabled at compile time on the reader of the stream", oke,
                        f"reader macros added to the stream's reader: {sorted(extra)}; required into the module: {sorted(table)}"))
    return res


# ----------------------------------------------------------------------------------------------------------------------
def _work(idx_range):
    lo, hi = idx_range
    cases = _W["cases"]
    out = []
    for i in range(lo, hi):
        kind, ctx, text, tgt = cases[i]
        try:
            ob = observe(text, ctx, tgt)
        except Exception as e:          # a crash of the harness itself is reported as undecided, never as a violation
            ob = {"src": text, "crash": f"{type(e).__name__}: {e}"}
        out.append((i, ob))
    return out


def _work_shallow(idx_range):
    """_work in a fresh thread: a forked pool worker starts on top of the checker's deep call stack, where CPython maps
    and unmaps a 16 KiB frame-stack chunk again and again under hy's deeply recursive compiler (see hv/props/c37.py)."""
    import threading
    box = []

    def target():
        try:
            box.append((True, _work(idx_range)))
        except BaseException as e:
            box.append((False, e))
    t = threading.Thread(target=target)
    t.start()
    t.join()
    if not box[0][0]:
        raise box[0][1]
    return box[0][1]


def part_mirror(chk, scratch):
    chk.fn("hy/core/result_macros.py::compile_require", "hy/core/result_macros.py::assignment_shape",
           "hy/core/result_macros.py::module_name_str", "hy/macros.py::require", "hy/macros.py::require_vals",
           "hy/macros.py::require_reader", "hy/macros.py::enable_readers", "hy/macros.py::local_macro_name")
    thorough = chk.tier == "thorough"
    root = os.path.join(scratch, "mirror_root")
    os.makedirs(root)
    p = gen.Pkg("hvc15_mirror", salt=chk.seed % 1000)
    gen.write_package(root, p, [])
    sys.path.insert(0, root)
    import importlib
    importlib.invalidate_caches()
    saved_dwb = sys.dont_write_bytecode
    sys.dont_write_bytecode = True
    try:
        # the package and the parents of the target modules must exist as modules (relative names are resolved against them)
        for m in (p.name, f"{p.name}.sub", f"{p.name}.macs", f"{p.name}.exp", f"{p.name}.exp2", f"{p.name}.my_macs",
                  f"{p.name}.other", f"{p.name}.other.om", f"{p.name}.empty"):
            importlib.import_module(m)
        cases = all_cases(p.name, thorough)
        _W["cases"] = cases
        chk.bounds["mirror forms"] = len(cases)
        chk.bounds["mirror form space"] = {"module kinds": list(module_kinds(p.name)), "positions": list(CONTEXTS),
                                           "name lists": "up to 2 names, with and without :as, [] and an unknown name; with and without :macros",
                                           "reader lists": "[], 1-2 names, *, an unknown name; before and after the macro part",
                                           "entries per form": "1, and 8 hand-written forms with 2-4 entries"}
        n = len(cases)
        if chk.jobs > 1:
            step = max(1, n // (chk.jobs * 4))
            ranges = [(i, min(n, i + step)) for i in range(0, n, step)]
            with multiprocessing.get_context("fork").Pool(chk.jobs) as pool:
                parts = pool.map(_work_shallow, ranges, chunksize=1)
            obs = dict(x for part in parts for x in part)
        else:
            obs = dict(_work_shallow((0, n)))
    finally:
        sys.dont_write_bytecode = saved_dwb
        sys.path.remove(root)
        for name in [k for k in sys.modules if k == p.name or k.startswith(p.name + ".")]:
            del sys.modules[name]
    agg = {}
    canary_refuted = canary_total = 0
    n_err = n_ok = 0
    for i, (kind, ctx, text, tgt) in enumerate(cases):
        chk.case(("mirror", ctx, text))
        ob = obs[i]
        inp = {"form": ob.get("src", text), "compiled in module": tgt}
        if "crash" in ob:
            chk.ob(f"mirror/harness/{kind}", None, "rtc", "arity_bounded", detail=f"{text}: {ob['crash']}")
            continue
        where = "function or class body" if ctx in ("fn", "class") else "module level"
        kind = f"{kind}/{where}"
        if "error" in ob:
            n_err += 1
            a = agg.setdefault(("a require that cannot be satisfied is a Hy error at compile time", kind), [0, 0, None])
            a[0] += 1
            if not ob["hy_error"]:
                a[1] += 1
                a[2] = a[2] or (f"{ob['src']}: {ob['error']}", inp)
            continue
        n_ok += 1
        for clause, ok, det in ob["clauses"]:
            if ok is None:
                continue
            a = agg.setdefault((clause, kind), [0, 0, None])
            a[0] += 1
            if not ok:
                a[1] += 1
                a[2] = a[2] or (f"{ob['src']}: {det}", inp)
        if ob["canary"] is not None:
            canary_total += 1
            canary_refuted += (ob["canary"] is False)
    for (clause, kind), (n_, nf, first) in sorted(agg.items()):
        chk.ob(f"mirror/{clause}/{kind}", nf == 0, "rtc", "arity_bounded",
               detail=None if nf == 0 else f"{nf}/{n_} forms; first: {first[0]}",
               replay=None if nf == 0 else {"confirmed": True, "input": first[1], "observed": first[0], "expected": clause})
    chk.extra["mirror_forms_compiled"] = n_ok
    chk.extra["mirror_forms_refused_at_compile_time"] = n_err
    chk.ob("mirror/the form space reaches every module kind with emitted calls and with refusals", n_ok > 0 and n_err > 0
           and canary_total > 0, "rtc", "arity_bounded", detail=f"compiled {n_ok}, refused {n_err}, with an emitted require call {canary_total}")
    chk.canary("mirror: an emitted require call with a swapped alias pair or a changed prefix still mirrors the compile-time call",
               canary_total > 0 and canary_refuted == canary_total)
    for i in (0, len(cases) // 3, len(cases) // 2):
        if "emitted" in obs[i]:
            chk.sample({"form": obs[i]["src"], "emitted": obs[i]["emitted"]})
