"""Exhaustive exploration of ResolveOuterVars.visit_OuterVar on real scope objects (shared by C07 and C13)."""
import ast
import itertools

import hv.symx.core  # noqa: F401
import hy.scoping as hs
from hv.symx import core as sx

NAMES = ("a", "b", "c")


class OSet(set):
    """A set whose iteration order is scripted (stands for an arbitrary hash order)."""
    reverse = False

    def __iter__(self):
        items = sorted(set.__iter__(self), reverse=OSet.reverse)
        return iter(items)


def chains(max_depth):
    """(kinds, per-scope name sets, global names): enclosing scopes from the innermost outward, ending with the module."""
    kinds = ("fn", "class", "let")
    subsets = [()] + [(n,) for n in NAMES[:2]] + [NAMES[:2]]
    for d in range(0, max_depth + 1):
        for ks in itertools.product(kinds, repeat=d):
            for sets in itertools.product(subsets, repeat=d):
                for g in subsets:
                    yield ks, sets, g


def build(ks, sets, gnames, declaring="fn"):
    comp = sx.new_compiler()
    g = comp.scope
    g.defined = set(gnames)
    cur = g
    scopes = []
    for k, names in reversed(list(zip(ks, sets))):       # outermost first
        if k == "fn":
            s = hs.ScopeFn(comp, ast.arguments(args=[], vararg=None, kwarg=None, posonlyargs=[], kwonlyargs=[], kw_defaults=[], defaults=[]))
            s.defined = set(names)
        elif k == "class":
            s = hs.ScopeFn(comp)
            s.defined = set(names)
        else:
            s = hs.ScopeLet(comp)
            s.bindings = {n: f"_hy_let_{n}_9" for n in names}
        s.parent = cur
        cur = s
        scopes.append(s)
    inner = hs.ScopeFn(comp, ast.arguments(args=[], vararg=None, kwarg=None, posonlyargs=[], kwonlyargs=[], kw_defaults=[], defaults=[]))
    inner.parent = cur
    return comp, inner


def spec(names, ks, sets, gnames):
    """Reference: D = declared names bound by an enclosing let or function scope (class bodies do not count), U = the
    others; if all of U are module-level variables: [Global(U)] + [Nonlocal(D)] in declaration order; otherwise a single
    Nonlocal(all) (Python then reports the missing binding)."""
    D, U = [], []
    for n in names:
        found = False
        for k, s in zip(ks, sets):
            if k in ("fn", "let") and n in s:
                found = True
                break
        (D if found else U).append(n)
    if all(n in gnames for n in U):
        out = []
        if U:
            out.append(("Global", U))
        if D:
            out.append(("Nonlocal", D))
        return out
    return [("Nonlocal", list(names))] if names else []


def run_real(names, ks, sets, gnames, reverse=False):
    comp, inner = build(ks, sets, gnames)
    node = hs.OuterVar(sx.S("nonlocal"), inner, list(names))
    real_set = hs.__dict__.get("set", set)
    hs.set = OSet
    OSet.reverse = reverse
    try:
        # sets created before the patch (scope.defined) are plain sets: convert so that their order is scripted too
        s = inner.parent
        while s is not None:
            if hasattr(s, "defined"):
                s.defined = OSet(s.defined)
            s = s.parent
        def snapshot():
            out, sc = [], inner.parent
            while sc is not None:
                out.append((frozenset(getattr(sc, "defined", ())), tuple(sorted(getattr(sc, "bindings", {}).items()))))
                sc = sc.parent
            return out
        before = snapshot()
        res = hs.ResolveOuterVars().visit_OuterVar(node)
        after = snapshot()
    finally:
        if "set" in hs.__dict__:
            del hs.__dict__["set"]
    out = [(type(r).__name__, list(r.names)) for r in res]
    if before != after:
        # frame condition: resolving a declaration only reads the enclosing scopes
        out.append(("SCOPES-MODIFIED", [sorted(a[0]) for a in after]))
    return out
