"""C32 hy.mangle always yields a canonical Python identifier."""
import collections
import unicodedata

import hv.symx.core  # noqa: F401  (first: puts /repo on sys.path, pre-imports hy)

from hv.props import _c32_common as K

META = {
    "engine": "ex+rtc",
    "level": "other",
    "technique": "contract-based: the postconditions of hy.mangle as run-time contracts on the real function, evaluated "
                 "completely over every Unicode code point (0x110000, surrogates included) in seven positional contexts on "
                 "all cores, plus bounded drivers (hypothesis strategies, small-scope enumeration over a partition alphabet)",
    "text": "Clauses, each on the real mangle: it returns a str; the result satisfies str.isidentifier; it is in NFKC normal "
            "form; CPython's own parser reads it as a Name and keeps it unchanged (independent oracle for the first two); the "
            "number of leading underscores (characters that NFKC-normalise to _, as docs/syntax.rst defines them) is the same "
            "in input and output; a name that already is an NFKC-normal identifier is returned unchanged; mangle is "
            "idempotent; a dotted name is mangled part by part (empty parts stay empty) and every part satisfies the clauses; "
            "the result equals the five-step algorithm of docs/syntax.rst. The code-point part is exhaustive (contexts: alone, "
            "after a, before a, after _, after -, doubled, between two letters); multi-character names, dotted names, "
            "leading/trailing underscores and hyphens, names that look mangled, NFKC-changing characters and combining marks "
            "are a bounded stand-in. The quick tier consults the parser oracle in the contexts alone, after a and after - only; "
            "every other clause is evaluated in all seven contexts in both tiers.",
    "note": "Level other: exhaustive over the finite code-point domain, bounded for longer names (never counted as proved). "
            "Trusted: CPython's str.isidentifier, unicodedata (same Unicode version as the interpreter that runs Hy) and "
            "ast.parse as oracles. The docs-algorithm clause is an auxiliary conformance clause (docs/syntax.rst steps 1-5).",
}

CLAUSES = ("returns a str", "valid identifier", "NFKC normal form", "CPython parser keeps it as a Name", "same leading underscores",
           "NFKC-normal identifiers unchanged", "idempotent", "equals the documented algorithm")
DOTTED = "dotted names part by part"

_F = {}          # variant name -> function under contract (set before the pool forks)
_UND = None
_PARSE_CONTEXTS = frozenset(K.CONTEXTS)      # contexts in which the (slow) parser oracle is consulted


def evaluate(f, s, und, parse=True):
    """all clauses of the contract on one name: list of (clause, ok, observed)"""
    try:
        m = f(s)
    except Exception as e:  # noqa: BLE001
        return [(CLAUSES[0], False, f"raised {type(e).__name__}: {e}")], None
    if not isinstance(m, str):
        return [(CLAUSES[0], False, f"returned {type(m).__name__}")], None
    out = [(CLAUSES[0], True, None)]
    if K.is_dotted(s):
        try:
            parts = [f(p) if p else "" for p in s.split(".")]
            ok = m == ".".join(parts) and all(
                (not p) or (q.isidentifier() and K.nfkc(q) == q and K.lead_count(p, und) == K.lead_count(q, und))
                for p, q in zip(s.split("."), parts))
            out.append((DOTTED, ok, m))
        except Exception as e:  # noqa: BLE001
            out.append((DOTTED, False, f"a part raised {type(e).__name__}: {e}"))
    else:
        out.append((CLAUSES[1], m.isidentifier(), m))
        out.append((CLAUSES[2], unicodedata.normalize("NFKC", m) == m, m))
        if parse:
            out.append((CLAUSES[3], K.cpython_canonical(m), m))
        out.append((CLAUSES[4], K.lead_count(s, und) == K.lead_count(m, und), m))
        if s.isidentifier() and unicodedata.normalize("NFKC", s) == s:
            out.append((CLAUSES[5], m == s, m))
    try:
        mm = f(m)
        out.append((CLAUSES[6], mm == m, f"{m!a} then {mm!a}"))
    except Exception as e:  # noqa: BLE001
        out.append((CLAUSES[6], False, f"mangle({m!a}) raised {type(e).__name__}"))
    out.append((CLAUSES[7], m == K.spec_mangle(s, und), m))
    return out, m


def _call(f, *a):
    try:
        return f(*a)
    except Exception as e:  # noqa: BLE001
        return f"<raised {type(e).__name__}: {e}>"


def _scan(task):
    variant, lo, hi = task
    f, und = _F[variant], _UND
    acc, st = K.Acc(), collections.Counter()
    ctxs = [(cname, mk, cname in _PARSE_CONTEXTS) for cname, mk in K.CONTEXTS.items()]
    for cp in range(lo, hi):
        c = chr(cp)
        seen = set()
        for cname, mk, parse in ctxs:
            s = mk(c)
            res, m = evaluate(f, s, und, parse)
            for clause, ok, obs in res:
                acc.add((variant, clause, cname), ok, s, obs)
            if variant != "real":
                continue
            st["evaluations"] += 1
            if s not in seen:
                seen.add(s)
                st["distinct"] += 1
                if m is not None and m != s:
                    st["changed by mangle"] += 1
    return acc.d, st


def _names(task):
    kind, arg, n, seed = task
    if kind == "hypothesis":
        names, src = K.generate(arg, n, seed), "hypothesis"       # one obligation per clause over all strategies: stable names
    else:
        names, src = list(K.small_scope_expand(arg)), "small scope"
    f, und = _F["real"], _UND
    acc, st = K.Acc(), collections.Counter()
    st["source: " + (arg if kind == "hypothesis" else src)] += len(set(names))
    for s in set(names):
        if not s:
            continue
        res, m = evaluate(f, s, und, True)
        for clause, ok, obs in res:
            acc.add((clause, src), ok, s, obs)
        st["evaluations"] += 1
        st["distinct"] += 1
        if m is not None and m != s:
            st["changed by mangle"] += 1
        if K.is_dotted(s):
            st["dotted"] += 1
    return acc.d, st


def _emit(chk, acc, prefix, backend, kind, f, und):
    for (clause, where), (n, bad, ex) in sorted(acc.d.items()):
        name = f"{prefix}/{clause}/{where}"
        if not bad:
            chk.ob(name, True, backend, kind, detail=f"{n} names")
            continue
        s0, obs0 = ex[0]

        def fails(x):
            return any(c == clause and not ok for c, ok, _ in evaluate(f, x, und)[0])
        confirmed = fails(s0)
        smin = K.minimise(s0, fails) if confirmed and len(s0) > 1 else s0
        obs = next((o for c, ok, o in evaluate(f, smin, und)[0] if c == clause and not ok), obs0)
        chk.ob(name, False, backend, kind,
               detail=f"{bad} of {n} names fail; minimal input {smin!a} -> {obs!a}; first inputs {[e[0] for e in ex][:4]!a}",
               replay={"confirmed": confirmed, "input": smin, "observed": obs, "expected": clause})


def run(chk):
    global _UND, _PARSE_CONTEXTS
    mangle, _ = K.real_functions()
    cl = K.classes()
    _UND = und = cl.underscore_like
    _F["real"] = mangle
    thorough = chk.tier == "thorough"
    if not thorough:       # quick tier: the parser oracle (60% of the scan time) at start, continuation and after-escape positions only
        _PARSE_CONTEXTS = frozenset(("alone", "after-a", "after-hyphen"))
    chk.level = "other"
    chk.fn(f"{K.FILE}::mangle")
    chk.trust("str.isidentifier, unicodedata.normalize/name and ast.parse of the running CPython as oracles",
              "Unicode data of the interpreter that runs Hy (unicodedata.unidata_version = %s)" % unicodedata.unidata_version)

    # ---- must-fail canaries: faulty variants of the function, pushed through the same clause machinery -------------
    _F["canary-nfd"] = lambda s: unicodedata.normalize("NFD", mangle(s))
    _F["canary-first-hyphen"] = lambda s: mangle(s.replace("-", "_"))
    _F["canary-suffix"] = lambda s: mangle(s) + "_"
    tasks = [(v, lo, hi) for v in ("canary-nfd", "canary-first-hyphen", "canary-suffix") for lo, hi in K.cp_chunks(0, 0x400, 0x100)]
    tasks += [("real", lo, hi) for lo, hi in K.cp_chunks()]
    allacc, st = K.pool_map(chk.jobs, _scan, tasks)
    acc = K.Acc()
    acc.d = {k[1:]: v for k, v in allacc.d.items() if k[0] == "real"}
    can = {v: {k[1:] for k, (n, bad, ex) in allacc.d.items() if k[0] == v and bad} for v in ("canary-nfd", "canary-first-hyphen", "canary-suffix")}
    chk.canary("NFKC clause refutes a mangle whose result is NFD-decomposed", (CLAUSES[2], "alone") in can["canary-nfd"])
    chk.canary("CPython-parser clause refutes the NFD variant as well", (CLAUSES[3], "alone") in can["canary-nfd"])
    chk.canary("leading-underscore clause refutes a mangle that turns a first hyphen into an underscore",
               (CLAUSES[4], "after-hyphen") in can["canary-first-hyphen"] and (CLAUSES[4], "before-a") in can["canary-first-hyphen"])
    chk.canary("unchanged and idempotence clauses refute a mangle that appends an underscore",
               (CLAUSES[5], "alone") in can["canary-suffix"] and (CLAUSES[6], "alone") in can["canary-suffix"])
    chk.canary("documented-algorithm clause refutes all three variants", all((CLAUSES[7], "before-a") in can[v] or (CLAUSES[7], "alone") in can[v] for v in can))

    # ---- exhaustive part: every code point x 7 contexts ---------------------------------------------------------------
    assert st["evaluations"] == K.MAXCP * len(K.CONTEXTS), st
    _emit(chk, acc, "code points", "ex", "exhaustive_finite", mangle, und)
    for cname in K.CONTEXTS:                      # vacuity: every (clause, context) must have been exercised
        for clause in CLAUSES:
            if (clause, cname) == (CLAUSES[5], "after-hyphen") or (clause == CLAUSES[3] and cname not in _PARSE_CONTEXTS):
                continue                          # "-c" is never an identifier; parser oracle not consulted in this context
            if (clause, cname) not in acc.d:
                chk.ob(f"code points/{clause}/{cname}", None, "ex", "exhaustive_finite", detail="clause never applicable: vacuous")
    n_unch = sum(n for (c, _), (n, _b, _e) in acc.d.items() if c == CLAUSES[5])
    chk.bounds["exhaustive"] = f"all {K.MAXCP} code points (surrogates included: hy.mangle accepts them) x {len(K.CONTEXTS)} contexts {list(K.CONTEXTS)}"
    evaluations, distinct, changed = st["evaluations"], st["distinct"], st["changed by mangle"]

    # ---- bounded part ---------------------------------------------------------------------------------------------------
    per, seeds = (2500, 16) if thorough else (1500, 2)
    maxlen = 5 if thorough else 4
    tasks = [("hypothesis", sname, per, chk.seed * 1000003 + 7919 * i + j) for j, sname in enumerate(K.strategies()) for i in range(seeds)]
    tasks += [("small", t, 0, 0) for t in K.small_scope_tasks(maxlen)]
    bacc, bst = K.pool_map(chk.jobs, _names, tasks)
    _emit(chk, bacc, "names", "rtc", "bounded", mangle, und)
    chk.bounds["hypothesis"] = f"{len(K.strategies())} strategies x {seeds} seeds x {per} examples, seed {chk.seed}"
    chk.bounds["small scope"] = f"all names of length <= {maxlen} over the {len(K.ALPHABET)}-symbol partition alphabet {''.join(K.ALPHABET)!a}"
    evaluations += bst["evaluations"]
    distinct += bst["distinct"]
    changed += bst["changed by mangle"]

    # documented examples (docs/syntax.rst, docstring of hy.mangle)
    docs = {"foo-bar": "foo_bar", "\U0001f991": "hyx_XsquidX", "a.c!.d": "a.hyx_cXexclamation_markX.d", "green☘": "hyx_greenXshamrockX",
            "--has-dashes": "hyx_XhyphenHminusX_has_dashes", "__green☘": "__hyx_greenXshamrockX", "α": "α", "foo_bar": "foo_bar"}
    got = {k: _call(mangle, k) for k in docs}
    bad = {k: got[k] for k, v in docs.items() if got[k] != v}
    k0 = next(iter(bad), None)
    chk.ob("names/documented examples", not bad, "rtc", "bounded", detail=f"{bad!a}",
           replay=({"confirmed": True, "input": k0, "observed": bad[k0], "expected": docs[k0]} if bad else None))

    chk.evaluations = evaluations
    chk.extra.update({
        "evaluations": evaluations, "distinct_nontrivial": changed, "exhaustive": True,
        "rule": "one evaluation per (code point, context) pair or generated name; distinct = distinct names (measured per code "
                "point / per generator task); non-trivial = distinct names that hy.mangle changes",
        "distinct_names": distinct, "names_changed_by_mangle": changed,
        "exhaustive_domain": K.MAXCP * len(K.CONTEXTS),
        "bounded_names_by_source": {k[8:]: v for k, v in bst.items() if k.startswith("source: ")},
        "unchanged_clause_applicable_cases": n_unch, "bounded_names": bst["evaluations"], "bounded_dotted_names": bst["dotted"],
        "underscore_like_characters": sorted(f"U+{ord(c):04X}" for c in und),
    })
    for s in ("\U0001f991", "-a", "＿a-b", "a.c!.d", "ﬁ", "X-"):
        chk.sample({"input": s, "mangle": _call(mangle, s)})
    chk.explanation = ("Run-time contracts on the real hy.mangle. Exhaustive (kind exhaustive_finite) over every code point in seven "
                       "contexts, one obligation per (clause, context); names longer than that are a bounded stand-in (hypothesis + "
                       "small-scope enumeration), so the property is claimed at level other. Idempotence and identity on NFKC-normal "
                       "identifiers are the two lemmas C34 relies on.")


def replay(path):
    from hv.replay import replay_file
    return replay_file(path)
