"""C01 compiled code means what the Hy program means (core expression forms)."""
from hv import equiv, rules
from hv.symx.core import E, S, Keyword, List, run_rule, tokens, show
from hy.models import Integer, String, Dict, Tuple

META = {
    "engine": "symx+pysem",
    "level": "proof",
    "technique": "contract-based: each compile_* rule is executed symbolically on opaque children (callee contract of "
                 "compiler.compile = abstract Result shapes); postcondition pysem(emitted) == hysem(form) decided by "
                 "exhaustive decision enumeration; program-level claim by structural induction over the form",
    "text": "One obligation per core rule and child-shape vector: the real rule's emission is proved trace-equivalent to the "
            "documented semantics for all child values, every truthiness assignment and a raise point at every child "
            "(argument lists modulo the documented unspecified sibling order). Fixed-arity rules are proved outright; "
            "variadic ones for arity <= 3 (quick) / <= 5 (thorough); depth-2 nestings of sequential forms are checked "
            "without stubbing as a cross-check of the induction hypothesis.",
    "note": "Trusted: pysem, hysem (reading of docs/api.rst), parametricity of rules in their children, the induction "
            "argument (token contract = induction hypothesis; compiler temporaries are never read or written by children: "
            "C12). Comparison chains with more than two operands and comprehensions are covered by C03/C04, not here. "
            "Loops: iterations 0..2 explored with equal temporaries store at the loop head (one-step simulation).",
}

B = ("E", "SE", "S")
A = ("E", "SE", "S", "T", "0")
V = ("E", "SE", "T")      # value-producing shapes
# body tokens may `break`/`continue`; the loop condition / iterable (t0) only raises here - break/continue inside a
# loop *condition* is checked by the separate case while/cond-break
LOOP = dict(atom_abrupt=("raise", "break", "continue"), abrupt_by={"t0": ("raise",)})
LOOP2 = dict(atom_abrupt=("raise", "break", "continue"), abrupt_by={"t0": ("raise",), "t1": ("raise",)})
RM = "hy/core/result_macros.py::"


def cases(tier):
    C = rules.Case
    hi = 3 if tier == "quick" else 5
    for n in range(0, hi + 1):
        C(f"do/{n}", lambda *b: E(S("do"), *b), n, A if n <= 3 else B, kind="arity_bounded", fn=RM + "compile_do")
    C("if", lambda c, a, b: E(S("if"), c, a, b), 3, A + ("N",), fn=RM + "compile_if")
    C("if/const-test", lambda a, b: E(S("if"), S("True"), a, b), 2, A, fn=RM + "compile_if")
    C("when", lambda c, a, b: E(S("when"), c, a, b), 3, B, fn="hy/core/macros.hy::when")
    C("when/empty", lambda c: E(S("when"), c), 1, B, fn="hy/core/macros.hy::when")
    C("cond/0", lambda: E(S("cond")), 0, B, fn="hy/core/macros.hy::cond")
    C("cond/1", lambda c, r: E(S("cond"), c, r), 2, B, fn="hy/core/macros.hy::cond")
    C("cond/2", lambda c1, r1, c2, r2: E(S("cond"), c1, r1, c2, r2), 4, B, kind="arity_bounded", fn="hy/core/macros.hy::cond")
    C("cond/3", lambda c1, r1, c2, r2, c3, r3: E(S("cond"), c1, r1, c2, r2, c3, r3), 6, ("E", "SE"), kind="arity_bounded")
    C("not", lambda a: E(S("not"), a), 1, A, fn=RM + "compile_unary_operator")
    C("and/3", lambda a, b, c: E(S("and"), a, b, c), 3, B, kind="arity_bounded")
    C("or/3", lambda a, b, c: E(S("or"), a, b, c), 3, B, kind="arity_bounded")
    # assignment
    C("setv/1", lambda v: E(S("setv"), S("x"), v), 1, A, fn=RM + "compile_def_expression, compile_assign")
    C("setv/2", lambda v, w: E(S("setv"), S("x"), v, S("y"), w), 2, A, kind="arity_bounded")
    C("setv/0", lambda: E(S("setv")), 0, B)
    C("setv/value-used", lambda v, w: E(S("do"), E(S("setv"), S("x"), v), w), 2, A)
    C("setv/unpack", lambda v: E(S("setv"), List([S("x"), S("y")]), v), 1, A)
    C("setv/place", lambda p, v: E(S("setv"), E(S("."), p, S("attr")), v), 2, [("E",), A])
    C("setx", lambda v: E(S("setx"), S("x"), v), 1, A, fn=RM + "compile_def_expression")
    C("setx/in-if", lambda v, a, b: E(S("if"), E(S("setx"), S("x"), v), a, b), 3, B)
    # let
    C("let/1", lambda v, b: E(S("let"), List([S("x"), v]), b, S("x")), 2, A, fn=RM + "compile_let")
    C("let/2-sequential", lambda v, b: E(S("let"), List([S("x"), v, S("y"), S("x")]), b, S("y")), 2, A, kind="arity_bounded")
    C("let/shadow", lambda v, w: E(S("let"), List([S("x"), v]), E(S("let"), List([S("x"), w]), S("x")), S("x")), 2, V)
    C("let/setv-inside", lambda v, w: E(S("let"), List([S("x"), v]), E(S("setv"), S("x"), w), S("x")), 2, V)
    C("let/outer-untouched", lambda v: E(S("do"), E(S("let"), List([S("x"), v]), S("x")), S("x")), 1, A)
    C("let/empty", lambda b: E(S("let"), List([]), b), 1, A)
    # calls, operators, subscripts
    C("call/0", lambda f: E(f), 1, A + ("N",), fn="hy/compiler.py::compile_expression")
    C("call/2", lambda f, a, b: E(f, a, b), 3, B + ("N",), kind="arity_bounded", fn="hy/compiler.py::_compile_collect")
    C("call/kw", lambda f, a, b: E(f, Keyword("k"), a, b), 3, B, kind="arity_bounded")
    C("call/kw-last", lambda f, a, b: E(f, a, Keyword("k"), b), 3, B, kind="arity_bounded")
    C("call/star", lambda f, a, b: E(f, E(S("unpack-iterable"), a), E(S("unpack-mapping"), b)), 3, B, kind="arity_bounded")
    C("call/method", lambda o, a: E(E(S("."), S("None"), S("meth")), o, a), 2, B, fn="hy/compiler.py::compile_expression")
    for op in ("+", "*", "-", "/", "**", "//", "|", "&", "<<", "@"):
        lo = {"+": 0, "*": 0, "|": 0, "-": 1, "/": 1, "&": 1, "@": 1}.get(op, 2)
        for n in range(lo, 4):
            C(f"op/{op}/{n}", lambda *a, op=op: E(S(op), *a), n, B, kind="arity_bounded", fn=RM + "compile_maths_expression")
    C("op/%", lambda a, b: E(S("%"), a, b), 2, A, fn=RM + "compile_maths_expression")
    C("op/bnot", lambda a: E(S("bnot"), a), 1, A)
    C("get/1", lambda o, i: E(S("get"), o, i), 2, A, fn=RM + "compile_index_expression")
    C("get/2", lambda o, i, j: E(S("get"), o, i, j), 3, B, kind="arity_bounded")
    C("cut/1", lambda o, a: E(S("cut"), o, a), 2, B, fn=RM + "compile_cut_expression")
    C("cut/2", lambda o, a, b: E(S("cut"), o, a, b), 3, B)
    C("cut/3", lambda o, a, b, c: E(S("cut"), o, a, b, c), 4, B)
    C("cut/0", lambda o: E(S("cut"), o), 1, B)
    C("list/2", lambda a, b: List([a, b]), 2, B, kind="arity_bounded", fn="hy/compiler.py::compile_list")
    C("tuple/2", lambda a, b: Tuple([a, b]), 2, B, kind="arity_bounded")
    C("dict/1", lambda a, b: Dict([a, b]), 2, B, kind="arity_bounded", fn="hy/compiler.py::compile_dict")
    # loops
    W = RM + "compile_while_expression"
    C("while", lambda c, b: E(S("while"), c, b), 2, [B, B], ctxkw=LOOP, fn=W,
      tok_kw=None)
    C("while/2-body", lambda c, a, b: E(S("while"), c, a, b), 3, [("E", "SE"), B, B], ctxkw=LOOP, fn=W)
    C("while/else", lambda c, b, o: E(S("while"), c, b, E(S("else"), o)), 3, [B, B, B], ctxkw=LOOP, fn=W)
    C("while/empty-body", lambda c: E(S("while"), c), 1, B, ctxkw=LOOP, fn=W)
    C("while/cond-break", lambda xs, c, b: E(S("for"), List([S("x"), xs]), E(S("while"), c, b)), 3, [("E",), ("SE",), ("E",)],
      ctxkw=dict(atom_abrupt=("raise",), abrupt_by={"t1": ("raise", "break", "continue")}), fn=W)
    F = RM + "compile_comprehension (for)"
    C("for/1", lambda xs, b: E(S("for"), List([S("x"), xs]), b), 2, [B, B], ctxkw=LOOP, fn=F)
    C("for/else", lambda xs, b, o: E(S("for"), List([S("x"), xs]), b, E(S("else"), o)), 3, [B, B, B], ctxkw=LOOP, fn=F)
    C("for/2-nested-else", lambda xs, ys, b, o: E(S("for"), List([S("x"), xs, S("y"), ys]), b, E(S("else"), o)), 4,
      [("E", "SE"), ("E", "SE"), B, ("E", "SE")], ctxkw=LOOP2, kind="arity_bounded", fn=F)
    C("for/if-do-setv", lambda xs, c, d, v, b: E(S("for"), List([S("x"), xs, Keyword("if"), c, Keyword("do"), d, Keyword("setv"), S("y"), v]), b),
      5, [("E",), ("E", "SE"), ("E", "SE"), ("E", "SE"), ("E", "S")], ctxkw=LOOP, kind="arity_bounded", fn=F)
    # functions
    C("fn/call-lambda", lambda b: E(E(S("fn"), List([]), b)), 1, ("E",), fn=RM + "compile_function_lambda")
    C("fn/call-def", lambda a, b: E(E(S("fn"), List([]), a, b)), 2, [("SE", "S"), B], fn=RM + "compile_function_node",
      ctxkw=dict(atom_abrupt=("raise", "return")))
    C("return", lambda a, b: E(E(S("fn"), List([]), E(S("return"), a), b)), 2, [B, ("E",)], fn=RM + "compile_return")
    C("return/bare", lambda a: E(E(S("fn"), List([]), a, E(S("return")))), 1, B)
    # with / try / raise (representatives; the full families are C09)
    C("with", lambda m, b: E(S("with"), List([S("a"), m]), b), 2, B)
    C("try", lambda b, h, f: E(S("try"), b, E(S("except"), List([S("e"), S("Exc")]), h), E(S("finally"), f)), 3, B)
    C("raise", lambda x: E(S("raise"), x), 1, B)
    # depth-2 nestings of sequential constructs, no stubbing except at the leaves
    C("nest/if-in-if-test", lambda a, b, c, d, e: E(S("if"), E(S("if"), a, b, c), d, e), 5, ("E", "SE"), kind="arity_bounded")
    C("nest/if-in-if-else", lambda a, b, c, d, e: E(S("if"), a, b, E(S("if"), c, d, e)), 5, ("E", "SE"), kind="arity_bounded")
    C("nest/do-in-if", lambda a, b, c, d: E(S("if"), a, E(S("do"), b, c), d), 4, B, kind="arity_bounded")
    C("nest/setv-if", lambda a, b, c: E(S("do"), E(S("setv"), S("x"), E(S("if"), a, b, c)), S("x")), 3, B, kind="arity_bounded")
    C("nest/setv-try", lambda a, b: E(S("setv"), S("x"), E(S("try"), a, E(S("finally"), b))), 2, B, kind="arity_bounded")
    C("nest/setv-with", lambda m, b: E(S("do"), E(S("setv"), S("x"), E(S("with"), List([S("a"), m]), b)), S("x")), 2, B, kind="arity_bounded")
    C("nest/while-and", lambda a, b, c: E(S("while"), E(S("and"), a, b), c), 3, B, ctxkw=LOOP2, kind="arity_bounded")
    C("nest/and-of-ifs", lambda a, b, c, d: E(S("and"), E(S("if"), a, b, c), d), 4, B, kind="arity_bounded")
    C("nest/let-in-if", lambda a, b, c: E(S("if"), a, E(S("let"), List([S("x"), b]), S("x")), c), 3, B, kind="arity_bounded")
    C("nest/if-in-while-body", lambda c, a, b, d: E(S("while"), c, E(S("if"), a, b, d)), 4, ("E", "SE"), ctxkw=LOOP, kind="arity_bounded")
    C("nest/cond-in-do", lambda a, b, c: E(S("do"), a, E(S("cond"), b, c)), 3, B, kind="arity_bounded")
    # a form that compiles to nothing (an empty `do`, `(eval-and-compile)`, a pragma) has the value None: as the last form of a body it
    # replaces the value of the form before it
    Z = ("E", "SE", "0")
    C("do/2-with-empty-forms", lambda a, b: E(S("do"), a, b), 2, Z, kind="arity_bounded")
    C("do/3-with-empty-forms", lambda a, b, c: E(S("do"), a, b, c), 3, Z, kind="arity_bounded")
    C("do/value-then-real-empty-do", lambda a: E(S("do"), a, E(S("do"))), 1, ("E", "SE"))
    C("fn/body-ending-in-empty-form", lambda a, b: E(E(S("fn"), List([]), a, b)), 2, [("E", "SE"), ("0",)], fn=RM + "compile_function_lambda")
    C("when/body-ending-in-empty-form", lambda c, a, b: E(S("when"), c, a, b), 3, [("E",), ("E", "SE"), ("0",)])
    C("let/body-ending-in-empty-form", lambda v, a, b: E(S("let"), List([S("x"), v]), a, b), 3, [("E",), ("E", "SE"), ("0",)])
    # two statement-valued ifs whose values are alive at the same time, inside each position of an if / cond chain (a rule that shares
    # one result variable down a chain must not hand it to unrelated ifs compiled in the chain's tests and bodies)
    two = lambda p, x, q, y: E(S("+"), E(S("if"), p, x, Integer(2)), E(S("if"), q, y, Integer(20)))
    TW = [("E",), ("SE",), ("E",), ("SE",)]
    C("nest/two-ifs-in-chain-second-body", lambda a, c, p, x, q, y: E(S("if"), a, Integer(1), E(S("if"), c, two(p, x, q, y), Integer(3))), 6,
      [("E",), ("E",)] + TW, kind="arity_bounded")
    C("nest/two-ifs-in-chain-second-test", lambda a, p, x, q, y, d: E(S("if"), a, Integer(1), E(S("if"), two(p, x, q, y), d, Integer(3))), 6,
      [("E",)] + TW + [("E", "SE")], kind="arity_bounded")
    C("nest/two-ifs-in-chain-last-else", lambda a, c, p, x, q, y: E(S("if"), a, Integer(1), E(S("if"), c, Integer(3), two(p, x, q, y))), 6,
      [("E",), ("E",)] + TW, kind="arity_bounded")
    C("nest/two-ifs-in-cond-second-clause", lambda a, c, p, x, q, y: E(S("cond"), a, Integer(1), c, two(p, x, q, y)), 6,
      [("E",), ("E",)] + TW, kind="arity_bounded")
    C("nest/two-ifs-in-first-body", lambda a, p, x, q, y, c: E(S("if"), a, two(p, x, q, y), E(S("if"), c, Integer(1), Integer(3))), 6,
      [("E",)] + TW + [("E",)], kind="arity_bounded")
    return list(rules.CASES)


def defining_forms_as_values(chk):
    """(setv g FORM) / (setx g FORM) with a defining form as FORM: docs/api.rst gives defn, defclass, defmacro, import, deftype the
    value None, and the definition takes effect under the name the program gave it - the assignment must not rename the definition
    (the compiler renames *temporaries* of the value to the target; a user-named definition is not one).  Real pipeline, CPython."""
    import types
    import hy
    forms = {"defn": ("(defn u-f [] 1)", "(u-f)", 1), "defn with statements": ("(defn u-f [] (setv q 1) (+ q 1))", "(u-f)", 2),
             "async defn": ("(defn :async u-f [] 1)", "(do (import asyncio) (asyncio.run (u-f)))", 1),
             "decorated defn": ("(defn [(fn [f] f)] u-f [] 1)", "(u-f)", 1),
             "defclass": ("(defclass U-C [] (setv k 3))", "U-C.k", 3), "defmacro": ("(defmacro u-m [] 4)", "(u-m)", 4),
             "import": ("(import math)", "(math.floor 2.5)", 2)}
    wraps = {"setv": "(setv g {})", "setx": "(do (setx g {}) None)", "setv in let": "(let [g 0] (setv g {}) (setv gg g)) (setv g gg)",
             "setv in fn": "(defn u-outer [] (setv g {}) (global u-f U-C math) g) (setv g (u-outer))"}
    bad = []
    for fname, (form, use, want) in forms.items():
        for wname, w in wraps.items():
            if wname == "setv in fn":
                continue            # the definition is local to the function there: only module-level and let wraps are observable
            src = f"{w.format(form)} [g {use}]"
            try:
                got = hy.eval(hy.read_many(src), module=types.ModuleType("hv_c01_def"))
            except Exception as e:  # noqa: BLE001
                got = f"{type(e).__name__}: {e}"
            chk.case(("defining-form", fname, wname))
            if got != [None, want]:
                bad.append((src, got, [None, want]))
    chk.ob("value/a defining form in value position: the assignment target gets None and the definition keeps the name the program gave it",
           not bad, "cpython-oracle", "exhaustive_finite", detail=None if not bad else f"{bad[0][0]} -> {bad[0][1]!r}, documented: {bad[0][2]!r}",
           replay=None if not bad else {"confirmed": True, "input": bad[0][0], "observed": repr(bad[0][1]), "expected": repr(bad[0][2])})


def run(chk):
    names = cases(chk.tier)
    defining_forms_as_values(chk)
    # try / with / raise are core expression forms of this property too: the whole families defined for C09 (every clause combination,
    # exception-variable scoping, nestings) are obligations here as well, not only the three representatives above
    from hv.props import c09
    names = list(dict.fromkeys(names + [n for n in c09.cases() if n.split("/")[0] in ("try", "with", "raise", "nest")]))
    # the result of a program includes what its variables hold afterwards: the cases with let-bound variables as operands (read back
    # after the construct) are obligations of this property as well
    from hv import uservars
    names = list(dict.fromkeys(names + uservars.cases()))
    chk.fn(*sorted({c.fn for c in rules.CASES.values() if c.fn}),
           "hy/compiler.py::Result.__add__/expr_as_stmt/force_expr/rename", "hy/compiler.py::HyASTCompiler._compile_branch",
           "hy/compiler.py::HyASTCompiler._storeize")
    chk.bounds.update({"variadic arity": "<=3 quick / <=5 thorough", "loop iterations": "0..2 + equal store at head",
                       "nesting": "rule-level (modular) + depth-2 composites"})
    chk.trust("pysem (model of the emitted Python fragment)", "hysem (reading of docs/api.rst, docs/semantics.rst)",
              "parametricity of rules in opaque children; induction over form depth",
              "sibling evaluation order inside argument lists is unspecified (docs/semantics.rst)")
    from hv.replay import replay_mismatch
    rules.run_cases(chk, names, replay_fn=replay_mismatch)
    toks = tokens(("E", "SE", "E"))
    out = run_rule(E(S("if"), *toks))
    _, bad = equiv.compare(out.result, E(S("if"), toks[0], toks[2], toks[1]))
    chk.canary("if emitted vs reference with swapped branches", bool(bad))
    out = run_rule(E(S("while"), toks[1], toks[0]))
    _, bad = equiv.compare(out.result, E(S("do"), toks[1], toks[0]), **LOOP)
    chk.canary("while emitted vs `do` reference", bool(bad))
    chk.sample({"rule": "if", "shapes": ["E", "SE", "E"], "emitted": show(run_rule(E(S("if"), *toks)).result)})


def replay(path):
    from hv.replay import replay_file
    return replay_file(path)
