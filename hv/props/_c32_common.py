"""Shared machinery of C32 (hy.mangle) and C33 (hy.unmangle): positional contexts, Unicode-derived character classes,
the parallel exhaustive code-point scan, name generators (hypothesis strategies, small-scope enumeration) and a
greedy input minimiser.  Contracts are always evaluated on the real functions of /repo/hy/reader/mangling.py."""
import collections
import itertools
import keyword
import multiprocessing
import unicodedata

import hv.symx.core  # noqa: F401  (puts /repo on sys.path, pre-imports hy)

import hy
from hy.reader import mangling as _mg

MAXCP = 0x110000
FILE = "hy/reader/mangling.py"


def nfkc(s):
    return unicodedata.normalize("NFKC", s)


# ---- positional contexts of the exhaustive part (the property's own quantifier) ---------------------------------
CONTEXTS = collections.OrderedDict([
    ("alone", lambda c: c),
    ("after-a", lambda c: "a" + c),
    ("before-a", lambda c: c + "a"),
    ("after-underscore", lambda c: "_" + c),
    ("after-hyphen", lambda c: "-" + c),
    ("doubled", lambda c: c + c),
    ("between-letters", lambda c: "a" + c + "b"),
])


# ---- character classes, derived from unicodedata on every run (never from mangle's own tables) -----------------
class Classes:
    """underscore_like: NFKC(c) == "_" (the docs' definition of an underscore)
    xnorm: c != "X" and "X" in NFKC(c) (characters that become the escape delimiter in mangle's final NFKC step)
    xcomp: NFKC("X" + c) does not start with "X" (marks that compose with a preceding delimiter)"""

    def __init__(self):
        self.underscore_like, self.xnorm, self.xcomp = set(), set(), set()
        for cp in range(MAXCP):
            c = chr(cp)
            n = nfkc(c)
            if n == "_":
                self.underscore_like.add(c)
            if "X" in n and c != "X":
                self.xnorm.add(c)
            if nfkc("X" + c)[:1] != "X":
                self.xcomp.add(c)
        self.underscore_like = frozenset(self.underscore_like)
        self.xnorm = frozenset(self.xnorm)
        self.xcomp = frozenset(self.xcomp)

    def cp_class(self, c):
        if c in self.xnorm:
            return "code points whose NFKC form contains X"
        if c in self.xcomp:
            return "marks that compose with a preceding X"
        return "regular code points"


CP_CLASSES = ("regular code points", "code points whose NFKC form contains X", "marks that compose with a preceding X")
_classes = None


def classes():
    global _classes
    if _classes is None:
        _classes = Classes()
    return _classes


def lead_count(s, und):
    """number of leading underscores of s; an underscore is any character that NFKC-normalises to "_" (docs/syntax.rst)"""
    i = 0
    while i < len(s) and s[i] in und:
        i += 1
    return i


def is_dotted(s):
    """the docs' 'dotted identifier' case of hy.mangle: contains a dot and is not made of dots only"""
    return "." in s and bool(s.strip("."))


def looks_mangled(s, und):
    """C33's exclusion: the part after the leading underscores starts with hyx_"""
    return s[lead_count(s, und):].startswith("hyx_")


NAME_CLASSES = (
    "regular names",
    "dotted names whose later parts are plain",
    "names with a character whose NFKC form contains X",
    "names with a mark that composes with X",
    "names that become hyx_-prefixed only through mangling",
    "dotted names with an underscore-led, escaped or X-holding later part",
)


def _plain(p, und):
    """p needs no escaping (docs steps 1-3: legal after removing nothing but converting non-initial hyphens)"""
    k = lead_count(p, und)
    r = p[k:]
    return ("_" * k + r[:1] + r[1:].replace("-", "_")).isidentifier()


def name_class(s, cl):
    """partition of C33's input names by predicates on the input alone (unicodedata + the docs' steps 1-2); the last four
    classes are the ones where mangle's output is predicted not to survive unmangle (design notes, section 7).  A name
    that falls into several of them goes to the first of: dotted, X-normalising, hyx_-forging (for these both clauses
    are known to fail), X-composing (only the round trip is known to fail)."""
    und = cl.underscore_like
    dotted = is_dotted(s)
    first = s.split(".")[0] if dotted else s
    if dotted:
        # unmangle is not dot-aware: it decodes X..X everywhere once the whole string starts with hyx_, and turns the
        # leading underscores of later parts into hyphens
        first_escaped = not _plain(first, und)
        for p in s.split(".")[1:]:
            if p and (lead_count(p, und) or not _plain(p, und) or (first_escaped and "X" in nfkc(p))):
                return NAME_CLASSES[5]
    if not cl.xnorm.isdisjoint(s):
        return NAME_CLASSES[2]
    rest = first[lead_count(first, und):]
    if nfkc(rest[:1] + rest[1:].replace("-", "_")).startswith("hyx_"):
        return NAME_CLASSES[4]           # e.g. hyx-a, (fullwidth h)yx_a: not excluded by the property's textual hyx_ test
    if not cl.xcomp.isdisjoint(s):
        return NAME_CLASSES[3]
    return NAME_CLASSES[1] if dotted else NAME_CLASSES[0]


# ---- the mangling algorithm as docs/syntax.rst (section Mangling, steps 1-5) states it: an independent oracle ----
def _esc(ch):
    nm = unicodedata.name(ch, "")
    return "X" + (nm.lower().replace(" ", "_").replace("-", "H") if nm else "U%x" % ord(ch)) + "X"


def spec_mangle(s, und):
    if is_dotted(s):
        return ".".join(spec_mangle(p, und) if p else "" for p in s.split("."))
    k = lead_count(s, und)                                   # step 1
    rest = s[k:]
    rest = rest[:1] + rest[1:].replace("-", "_")             # step 2 (a first hyphen stays)
    if not ("_" * k + rest).isidentifier():                  # step 3
        rest = "hyx_" + "".join(ch if ch != "X" and ("S" + ch).isidentifier() else _esc(ch) for ch in rest)
    return nfkc("_" * k + rest)                              # steps 4, 5


def cpython_canonical(m):
    """CPython's own parser accepts m as a Name and keeps it as is (the tokenizer NFKC-normalises identifiers), i.e.
    m is exactly the identifier Python would use.  Hard keywords are legal str.isidentifier() names but not Names."""
    import ast
    if keyword.iskeyword(m):
        return m.isidentifier() and nfkc(m) == m
    try:
        t = ast.parse(m, mode="eval").body
    except (SyntaxError, ValueError):
        return False
    return isinstance(t, ast.Name) and t.id == m


# ---- result accumulation: key -> [cases, failures, first failing inputs] -----------------------------------------
class Acc:
    KEEP = 6

    def __init__(self):
        self.d = {}

    def add(self, key, ok, inp=None, obs=None):
        e = self.d.get(key)
        if e is None:
            e = self.d[key] = [0, 0, []]
        e[0] += 1
        if not ok:
            e[1] += 1
            if len(e[2]) < self.KEEP:
                e[2].append((inp, obs))

    def merge(self, other):
        for k, (n, f, ex) in other.items():
            e = self.d.setdefault(k, [0, 0, []])
            e[0] += n
            e[1] += f
            e[2] = sorted(e[2] + list(ex), key=lambda t: (len(t[0]), t[0]))[: self.KEEP]


def pool_map(jobs, fn, tasks):
    """run fn over tasks on `jobs` forked workers; fn returns (acc-dict, stats-Counter)"""
    acc, stats = Acc(), collections.Counter()
    if jobs <= 1:
        res = map(fn, tasks)
    else:
        pool = multiprocessing.get_context("fork").Pool(jobs)
        res = pool.imap_unordered(fn, tasks)
    try:
        for a, st in res:
            acc.merge(a)
            stats.update(st)
    finally:
        if jobs > 1:
            pool.close()
            pool.join()
    return acc, stats


def cp_chunks(lo=0, hi=MAXCP, step=0x800):
    return [(a, min(a + step, hi)) for a in range(lo, hi, step)]


def minimise(s, still_fails, admissible=lambda s: True):
    """greedy 1-minimal reduction of a failing name: delete characters, then simplify characters"""
    cur = s
    changed = True
    while changed:
        changed = False
        for i in range(len(cur)):
            cand = cur[:i] + cur[i + 1:]
            if cand and admissible(cand) and still_fails(cand):
                cur, changed = cand, True
                break
    for i in range(len(cur)):
        for r in ("a", "!"):
            if cur[i] != r:
                cand = cur[:i] + r + cur[i + 1:]
                if admissible(cand) and still_fails(cand):
                    cur = cand
                    break
    return cur


# ---- generators of the bounded part ---------------------------------------------------------------------------------
# partition alphabet for small-scope enumeration: one representative per class of characters that mangle/unmangle
# (or the docs' algorithm) can distinguish
ALPHABET = collections.OrderedDict([
    ("a", "ASCII letter"), ("X", "the escape delimiter"), ("U", "hex-escape marker"), ("H", "hyphen marker in escapes"),
    ("1", "digit (legal only after the start)"), ("_", "underscore"), ("-", "hyphen"), (".", "dot"),
    ("!", "illegal character with a Unicode name"), ("͸", "illegal character without a name (unassigned)"),
    ("＿", "FULLWIDTH LOW LINE: normalises to _"), ("ﬁ", "LATIN SMALL LIGATURE FI: legal, NFKC-changing"),
    ("é", "e-acute: legal, NFKC-normal, non-ASCII"), ("́", "COMBINING ACUTE: legal after the start, composes with letters"),
    ("̇", "COMBINING DOT ABOVE: composes with X"), ("Ⅹ", "ROMAN NUMERAL TEN: normalises to X"),
    ("℘", "SCRIPT CAPITAL P: Other_ID_Start"), ("\U0001f991", "SQUID: non-BMP illegal character"),
])


def small_scope_tasks(maxlen):
    """split the enumeration of all names of length <= maxlen over ALPHABET by the first two characters"""
    al = list(ALPHABET)
    tasks = [(a, 1) for a in al]
    if maxlen >= 2:
        tasks += [(a + b, maxlen) for a in al for b in al]
    return tasks


def small_scope_expand(task):
    prefix, maxlen = task
    al = list(ALPHABET)
    if len(prefix) < 2:
        yield prefix
        return
    for n in range(0, maxlen - 1):
        for t in itertools.product(al, repeat=n):
            yield prefix + "".join(t)


def strategies():
    """hypothesis strategies, one per input class named in the properties' quantifiers"""
    from hypothesis import strategies as st
    cl = classes()
    any_char = st.characters()                                  # every code point, surrogates included
    ident_char = st.sampled_from("abcxyzhXUH019_") | st.characters(whitelist_categories=("Lu", "Ll", "Lo", "Nl", "Nd", "Mn", "Mc", "Pc"))
    punct = st.sampled_from("!?*+<>=/&%$#@^~|:'\" \t\n;,()[]{}\\`") | st.characters(whitelist_categories=("Sm", "So", "Sc", "Sk", "Po", "Pd", "Ps", "Pe", "Zs", "Cc", "Cf", "Cn", "Co", "Cs"))
    und = st.sampled_from(sorted(cl.underscore_like))
    hy_und = st.sampled_from("_-")
    nfkc_changing = st.sampled_from("ﬁﬃªµℂℌⅠⅧⅬⅰᵀ0ᵕ2ａＡ０㎒²①½…․﹒．ﷺͺ̈́क़ΩÅ豈ẛϒŀ") \
        | st.characters(min_codepoint=0xff00, max_codepoint=0xffef) | st.characters(min_codepoint=0x1d400, max_codepoint=0x1d7ff) \
        | st.characters(min_codepoint=0x2100, max_codepoint=0x218f) | st.characters(min_codepoint=0x3300, max_codepoint=0x33ff) \
        | st.characters(min_codepoint=0xfb00, max_codepoint=0xfdff)
    combining = st.characters(whitelist_categories=("Mn", "Mc", "Me")) | st.sampled_from("़゙゚̧̣́̇̈̈́ͅᅡᆨ")
    xish = st.sampled_from(sorted(cl.xnorm | cl.xcomp) + ["X"])
    word = st.text(ident_char, min_size=1, max_size=6)
    mixed_char = st.one_of(ident_char, ident_char, punct, hy_und, hy_und, nfkc_changing, combining, any_char)
    mixed = st.text(mixed_char, min_size=1, max_size=10)
    edge = st.text(st.one_of(und, hy_und), max_size=4)
    escape_body = st.sampled_from(["squid", "exclamation_mark", "hyphenHminus", "U21", "U1f991", "Uzz", "U110000", "pizzazz", "", "_", "H",
                                   "latin_capital_letter_x", "Ufffffffffffffffffffff", "full_stop", "low_line", "U2e", "U5f", "U58"])
    mangled_looking = st.builds(lambda pre, lead, parts: pre + lead + "".join(parts), st.text(und, max_size=2),
                                st.sampled_from(["hyx_", "hyx-", "hyx", "Hyx_", "ｈyx_", "hyˣ_", "hyx＿", "hyx_hyx_", "hyX_", "ahyx_"]),
                                st.lists(st.one_of(word, st.builds(lambda b: "X" + b + "X", escape_body), st.sampled_from(["X", "-", "_", "!", "XX"])), max_size=4))
    strat = collections.OrderedDict()
    strat["multi-character names"] = mixed
    strat["leading and trailing underscores and hyphens"] = st.builds(lambda a, b, c: a + b + c, edge, mixed | st.just(""), edge).filter(bool)
    strat["names with NFKC-changing characters"] = st.text(st.one_of(nfkc_changing, nfkc_changing, ident_char, punct, hy_und), min_size=1, max_size=8)
    strat["names with combining marks"] = st.text(st.one_of(combining, combining, ident_char, punct, hy_und, xish), min_size=1, max_size=8)
    strat["names around the escape delimiter"] = st.text(st.one_of(xish, xish, st.sampled_from("XUH_-!ab1"), combining, punct), min_size=1, max_size=8)
    strat["names that look mangled"] = mangled_looking
    part = st.one_of(word, mixed, st.just(""), edge, mangled_looking)
    strat["dotted names"] = st.lists(part, min_size=2, max_size=4).map(".".join).filter(lambda s: s.strip(".") != "")
    strat["arbitrary text"] = st.text(any_char, min_size=1, max_size=12)
    return strat


def generate(strategy_name, n, seed_value):
    """n names from one strategy, reproducibly from the seed (generation only: every generated name is evaluated)"""
    from hypothesis import HealthCheck, Phase, given, seed, settings
    out = []
    s = strategies()[strategy_name]

    @seed(seed_value)
    @settings(max_examples=n, database=None, deadline=None, phases=[Phase.generate], suppress_health_check=list(HealthCheck))
    @given(s)
    def collect(x):
        out.append(x)
    collect()
    return out


def real_functions():
    """the functions under contract; hy.mangle / hy.unmangle must be these very objects"""
    assert hy.mangle is _mg.mangle and hy.unmangle is _mg.unmangle, "hy.mangle/hy.unmangle are not hy.reader.mangling's"
    return _mg.mangle, _mg.unmangle
