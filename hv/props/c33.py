"""C33 hy.unmangle inverts hy.mangle up to mangling."""
import collections
import unicodedata

import hv.symx.core  # noqa: F401  (first: puts /repo on sys.path, pre-imports hy)

from hv.props import _c32_common as K

META = {
    "engine": "ex+rtc",
    "level": "other",
    "technique": "contract-based: the round-trip postcondition of hy.unmangle on hy.mangle's output as a run-time contract on "
                 "the two real functions, evaluated completely over every Unicode code point (0x110000, surrogates included) "
                 "in seven positional contexts on all cores, plus bounded drivers (hypothesis strategies, small-scope "
                 "enumeration over a partition alphabet)",
    "text": "For every non-empty name s whose part after its leading underscores does not start with hyx_: "
            "hy.unmangle(hy.mangle(s)) returns a str without raising, and hy.mangle of that result (which must not raise "
            "either) equals hy.mangle(s). Auxiliary clause from the docs' description of what mangling identifies: "
            "unmangle(mangle(s)) equals s up to NFKC and the hyphen/underscore identification. The code-point part is exhaustive "
            "(contexts: alone, after a, before a, after _, after -, doubled, between two letters; one obligation per clause, "
            "context and code-point class); multi-character names, dotted names, leading/trailing underscores and hyphens, "
            "names that look mangled, NFKC-changing characters and combining marks are a bounded stand-in. Inputs are "
            "partitioned by predicates on the input alone (unicodedata), so that the known defect classes - characters whose "
            "NFKC form contains the delimiter X, marks that compose with X, names that become hyx_-prefixed only through "
            "mangling, dotted names - are separate obligations and every other violation is still reported.",
    "note": "Level other: exhaustive over the finite code-point domain, bounded for longer names (never counted as proved). "
            "Trusted: unicodedata of the running CPython. hy.mangle's own postconditions are C32.",
}

NO_RAISE = "unmangle of mangle returns"
ROUNDTRIP = "mangle of unmangle of mangle equals mangle"
PRETTY = "unmangle of mangle equals the name up to NFKC and hyphen-underscore"
CLAUSES = (NO_RAISE, ROUNDTRIP, PRETTY)

_F = {}          # variant -> (mangle, unmangle) under contract (set before the pool forks)
_CL = None


def _canon(x):
    return unicodedata.normalize("NFKC", x).replace("_", "-")


def evaluate(fs, s, pretty=True):
    """the contract on one admissible name: list of (clause, ok, observed); the auxiliary clause is evaluated only for
    the input classes outside the known defect classes (pretty)"""
    mangle, unmangle = fs
    try:
        m = mangle(s)
    except Exception as e:  # noqa: BLE001
        return [(NO_RAISE, False, f"mangle raised {type(e).__name__}: {e}")]
    try:
        u = unmangle(m)
    except Exception as e:  # noqa: BLE001
        return [(NO_RAISE, False, f"unmangle({m!a}) raised {type(e).__name__}: {e}")]
    if not isinstance(u, str):
        return [(NO_RAISE, False, f"unmangle({m!a}) returned {type(u).__name__}")]
    out = [(NO_RAISE, True, None)]
    try:
        m2 = mangle(u)
        out.append((ROUNDTRIP, m2 == m, f"mangle = {m!a}, unmangle = {u!a}, mangle again = {m2!a}"))
    except Exception as e:  # noqa: BLE001
        out.append((ROUNDTRIP, False, f"mangle = {m!a}, unmangle = {u!a}, mangle again raised {type(e).__name__}"))
    if pretty:
        out.append((PRETTY, _canon(u) == _canon(s), f"mangle = {m!a}, unmangle = {u!a}"))
    return out


def _call(f, *a):
    try:
        return f(*a)
    except Exception as e:  # noqa: BLE001
        return f"<raised {type(e).__name__}: {e}>"


def _scan(task):
    variant, lo, hi = task
    fs, cl = _F[variant], _CL
    und = cl.underscore_like
    acc, st = K.Acc(), collections.Counter()
    ctxs = list(K.CONTEXTS.items())
    for cp in range(lo, hi):
        c = chr(cp)
        cc = cl.cp_class(c)
        seen = set()
        for cname, mk in ctxs:
            s = mk(c)
            if variant == "real":
                st["evaluations"] += 1
            if K.looks_mangled(s, und):
                st["excluded"] += variant == "real"
                continue
            res = evaluate(fs, s, cc == K.CP_CLASSES[0])
            for clause, ok, obs in res:
                acc.add((variant, clause, cname, cc), ok, s, obs)
            if variant == "real" and s not in seen:
                seen.add(s)
                st["distinct"] += 1
                if len(res) > 1 and fs[0](s) != s:
                    st["changed by mangle"] += 1
    return acc.d, st


def _names(task):
    kind, arg, n, seed = task
    if kind == "hypothesis":
        names, src = K.generate(arg, n, seed), "hypothesis"       # one obligation per clause over all strategies: stable names
    else:
        names, src = list(K.small_scope_expand(arg)), "small scope"
    fs, cl = _F["real"], _CL
    und = cl.underscore_like
    acc, st = K.Acc(), collections.Counter()
    st["source: " + (arg if kind == "hypothesis" else src)] += len(set(names))
    for s in set(names):
        if not s:
            continue
        st["generated"] += 1
        if K.looks_mangled(s, und):
            st["excluded"] += 1
            continue
        nc = K.name_class(s, cl)
        res = evaluate(fs, s, nc in K.NAME_CLASSES[:2])
        for clause, ok, obs in res:
            acc.add((clause, src, nc), ok, s, obs)
        st["evaluations"] += 1
        st["class: " + nc] += 1
        if len(res) > 1 and fs[0](s) != s:
            st["changed by mangle"] += 1
    return acc.d, st


def _emit(chk, acc, prefix, backend, kind, fs, admissible):
    for (clause, where, cls), (n, bad, ex) in sorted(acc.d.items()):
        name = f"{prefix}/{clause}/{where}/{cls}"
        if not bad:
            chk.ob(name, True, backend, kind, detail=f"{n} names")
            continue
        s0, obs0 = ex[0]

        def fails(x):
            return any(c == clause and not ok for c, ok, _ in evaluate(fs, x))
        confirmed = fails(s0)
        smin = K.minimise(s0, fails, lambda x: admissible(x, cls)) if confirmed and len(s0) > 1 and kind == "bounded" else s0
        obs = next((o for c, ok, o in evaluate(fs, smin) if c == clause and not ok), obs0)
        chk.ob(name, False, backend, kind,
               detail=f"{bad} of {n} names fail; minimal input {smin!a}: {obs}; first inputs {[e[0] for e in ex][:4]!a}",
               replay={"confirmed": confirmed, "input": smin, "observed": obs, "expected": clause})


def run(chk):
    global _CL
    mangle, unmangle = K.real_functions()
    _CL = cl = K.classes()
    und = cl.underscore_like
    _F["real"] = (mangle, unmangle)
    thorough = chk.tier == "thorough"
    chk.level = "other"
    chk.fn(f"{K.FILE}::unmangle", f"{K.FILE}::mangle")
    chk.trust("unicodedata.normalize of the running CPython (unidata_version %s) defines the input classes" % unicodedata.unidata_version,
              "hy.mangle's own postconditions (C32)")

    # ---- must-fail canaries: faulty unmangle variants and a wrong clause, through the same machinery ----------------
    _F["canary-H"] = (mangle, lambda s: unmangle(s.replace("H", "h")))
    _F["canary-lower"] = (mangle, lambda s: unmangle(s).lower())
    _F["canary-strip"] = (mangle, lambda s: unmangle(s).rstrip("-_"))
    variants = ("canary-H", "canary-lower", "canary-strip")
    tasks = [(v, lo, hi) for v in variants for lo, hi in K.cp_chunks(0, 0x400, 0x100)] + [("real", lo, hi) for lo, hi in K.cp_chunks()]
    allacc, st = K.pool_map(chk.jobs, _scan, tasks)
    acc = K.Acc()
    acc.d = {k[1:]: v for k, v in allacc.d.items() if k[0] == "real"}
    can = {v: {k[1:3] for k, (n, bad, ex) in allacc.d.items() if k[0] == v and bad and k[3] == K.CP_CLASSES[0]} for v in variants}
    chk.canary("no-raise clause refutes an unmangle that cannot decode the hyphen marker H", (NO_RAISE, "alone") in can["canary-H"])
    chk.canary("round-trip clause refutes an unmangle that lower-cases its result", (ROUNDTRIP, "alone") in can["canary-lower"])
    chk.canary("round-trip clause refutes an unmangle that drops trailing underscores", (ROUNDTRIP, "after-a") in can["canary-strip"])
    exact = sum(1 for c in map(chr, range(0x400)) if _call(lambda x: unmangle(mangle(x)), "a" + c) != "a" + c)
    chk.canary("the stronger clause 'unmangle(mangle(s)) == s' is refuted (a_ comes back as a-)", exact > 0)

    def admissible(x, cls=None):
        return bool(x) and not K.looks_mangled(x, und) and (cls is None or K.name_class(x, cl) == cls)

    # ---- exhaustive part: every code point x 7 contexts ---------------------------------------------------------------
    assert st["evaluations"] == K.MAXCP * len(K.CONTEXTS), st
    _emit(chk, acc, "code points", "ex", "exhaustive_finite", _F["real"], admissible)
    for cname in K.CONTEXTS:                      # vacuity: every (clause, context, class) must have been exercised
        for clause in CLAUSES:
            for cc in K.CP_CLASSES:
                if (clause, cname, cc) not in acc.d and (clause is not PRETTY or cc == K.CP_CLASSES[0]):
                    chk.ob(f"code points/{clause}/{cname}/{cc}", None, "ex", "exhaustive_finite", detail="never exercised: vacuous")
    chk.bounds["exhaustive"] = (f"all {K.MAXCP} code points (surrogates included: hy.mangle and hy.unmangle accept them) x "
                                f"{len(K.CONTEXTS)} contexts {list(K.CONTEXTS)}; excluded by the hyx_ premise: {st['excluded']}")
    evaluations, distinct, changed = st["evaluations"], st["distinct"], st["changed by mangle"]

    # ---- bounded part ---------------------------------------------------------------------------------------------------
    per, seeds = (2500, 16) if thorough else (1500, 2)
    maxlen = 5 if thorough else 4
    tasks = [("hypothesis", sname, per, chk.seed * 1000003 + 7919 * i + j) for j, sname in enumerate(K.strategies()) for i in range(seeds)]
    tasks += [("small", t, 0, 0) for t in K.small_scope_tasks(maxlen)]
    bacc, bst = K.pool_map(chk.jobs, _names, tasks)
    _emit(chk, bacc, "names", "rtc", "bounded", _F["real"], admissible)
    chk.bounds["hypothesis"] = f"{len(K.strategies())} strategies x {seeds} seeds x {per} examples, seed {chk.seed}"
    chk.bounds["small scope"] = f"all names of length <= {maxlen} over the {len(K.ALPHABET)}-symbol partition alphabet {''.join(K.ALPHABET)!a}"
    evaluations += bst["evaluations"]
    distinct += bst["evaluations"]
    changed += bst["changed by mangle"]

    # documented / tested examples of unmangle on mangle's output
    docs = {"\U0001f991": "\U0001f991", "foo-bar": "foo-bar", "foo_bar": "foo-bar", "--has-dashes?": "--has-dashes?", "__green☘": "__green☘",
            "_a_": "_a_", "a.b": "a.b", "__init__": "__init__", "__dunder_name__": "__dunder-name__", "-->": "-->", "<--": "<--",
            "--init--": "--init--", "⚘-⚘": "⚘-⚘"}
    got = {k: _call(lambda x: unmangle(mangle(x)), k) for k in docs}
    got["hyx_XsquidX (unmangle only)"] = _call(unmangle, "hyx_XsquidX")
    docs["hyx_XsquidX (unmangle only)"] = "\U0001f991"
    bad = {k: got[k] for k, v in docs.items() if got[k] != v}
    k0 = next(iter(bad), None)
    chk.ob("names/documented examples", not bad, "rtc", "bounded", detail=f"{bad!a}",
           replay=({"confirmed": True, "input": k0, "observed": bad[k0], "expected": docs[k0]} if bad else None))

    chk.evaluations = evaluations
    chk.extra.update({
        "evaluations": evaluations, "distinct_nontrivial": changed, "exhaustive": True,
        "rule": "one evaluation per (code point, context) pair or generated admissible name; distinct = distinct names (measured "
                "per code point / per generator task); non-trivial = distinct names that hy.mangle changes",
        "distinct_names": distinct, "names_changed_by_mangle": changed,
        "exhaustive_domain": K.MAXCP * len(K.CONTEXTS),
        "bounded_names_by_source": {k[8:]: v for k, v in bst.items() if k.startswith("source: ")},
        "bounded_names": bst["evaluations"], "bounded_names_excluded_by_premise": bst["excluded"],
        "bounded_names_by_class": {k[7:]: v for k, v in bst.items() if k.startswith("class: ")},
        "code_points_whose_NFKC_contains_X": sorted(f"U+{ord(c):04X}" for c in cl.xnorm),
        "marks_composing_with_X": sorted(f"U+{ord(c):04X}" for c in cl.xcomp),
    })
    for s in ("\U0001f991", "-a", "a_b", "__green☘", "-̇", "-Ⅹ", "a._b"):
        m = _call(mangle, s)
        u = _call(unmangle, m)
        chk.sample({"input": s, "mangle": m, "unmangle": u, "mangle again": _call(mangle, u)})
    chk.explanation = ("Run-time contract on the real hy.unmangle/hy.mangle pair. Exhaustive (kind exhaustive_finite) over every code "
                       "point in seven contexts, one obligation per (clause, context, code-point class); longer names are a bounded "
                       "stand-in (hypothesis + small-scope enumeration), so the property is claimed at level other.")


def replay(path):
    from hv.replay import replay_file
    return replay_file(path)
