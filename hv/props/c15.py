"""C15 loading a Hy module from cached bytecode behaves like compiling it.

Three bounded / shape-complete components, all on the REAL functions of the checkout:

1. `hy.importer._could_be_hy_src` against a specification written from the property sentence ("a file is compiled as
   Hy exactly when its extension isn't one of Python's other source suffixes"), over a vocabulary of file names
   (exhaustive over the vocabulary), and the loaders that must branch on exactly that predicate: files with Hy content
   and files with Python content under every extension are loaded through SourceFileLoader, HyLoader and runhy.run_path
   in a child process, from source and again from bytecode.
2. The mirror contract of `compile_require`: for every shape of `(require ...)` the run-time call that the rule emits
   has the arguments of the compile-time call the rule made (recorded by wrapping hy.core.result_macros.require /
   require_reader; the emitted ast.Call is evaluated literally), it is emitted iff the compile-time call transferred
   something, and executing the emitted code in a fresh module reproduces the compile-time macro tables.
3. End to end: generated packages of Hy modules are imported in child processes from source (which writes the .pyc),
   again from bytecode, with parts recompiled, without any source at all (sourceless .pyc), and run as __main__; module
   values, `_hy_macros` / `_hy_reader_macros` (keys, origin, expansion of a probe call) are compared.
"""
import hv.symx.core  # noqa: F401  (puts /repo on sys.path, pre-imports hy)

import importlib
import importlib.machinery
import json
import os
import pathlib
import random
import shutil
import subprocess
import sys
import tempfile
import time
from concurrent.futures import ThreadPoolExecutor

import hy
import hy.importer as himp

from hv import core
from hv.props import _c15_gen as gen

META = {
    "engine": "rtc+ex",
    "level": "other",
    "technique": "run-time contracts on the real functions: (1) _could_be_hy_src against a specification over a file-name "
                 "vocabulary, and the loaders (SourceFileLoader.source_to_code, HyLoader, runhy.run_path) observed in a "
                 "child process per extension and content language; (2) compile_require: the emitted hy.macros.require / "
                 "require_vals / require_reader call is compared, after literal evaluation, with the compile-time call "
                 "recorded by a wrapper, for the product of module-name kinds x name-list shapes x :readers shapes x "
                 "positions, and the emitted code is executed in a fresh module to reproduce the compile-time tables; "
                 "(3) differential import of generated packages in child processes: from source, from bytecode, partly "
                 "recompiled, sourceless, and as __main__",
    "text": "Bounded stand-in. Over the enumerated file names the real predicate equals `extension not in Python's own "
            "source suffixes`, and every loader compiles a file as Hy exactly then. For every enumerated shape of "
            "`require` the emitted run-time call mirrors the compile-time call (module name, assignments, prefix, target), "
            "is emitted iff something was transferred, and reproduces the compile-time `_hy_macros` / `_hy_reader_macros`. "
            "For every generated module, importing from source and from cached bytecode (in five histories) gives the "
            "same values, the same macro and reader-macro tables, and the same expansion of every macro in the table.",
    "note": "Level other: file names, require shapes and generated modules are bounded samples of infinite domains. Trusted: "
            "CPython's import system and .pyc validation, hy.mangle (C32), the generator's arithmetic oracle. Known findings: "
            "(F1) a module without macros of its own has an (empty) _hy_macros only when it was compiled in this process, so "
            "`_hy_macros` means the module's table after an import from source and builtins._hy_macros after an import from "
            "bytecode; (F2) a `require` in a branch the running program does not take is performed at compile time but not "
            "at run time; (F3) a local `require` that names a submodule emits a run-time call that cannot succeed (same "
            "failure from source and from bytecode). Relative module names with more dots than name parts, and relative names "
            "in a local `require`, are refused at compile time (no bytecode exists), which is outside this property.",
}

PY = sys.executable
CHILD = os.path.join(os.path.dirname(os.path.abspath(__file__)), "_c15_child.py")


# ======================================================================================================================
# child processes
# ======================================================================================================================
def child_env():
    env = dict(os.environ)
    for k in ("PYTHONDONTWRITEBYTECODE", "PYTHONPYCACHEPREFIX", "HY_MESSAGE_WHEN_COMPILING", "PYTHONOPTIMIZE"):
        env.pop(k, None)
    env["PYTHONUTF8"] = "1"
    env["PYTHONPATH"] = core.REPO
    return env


def run_child(scratch, tasks, tag):
    job = {"repo": core.REPO, "hypyc": os.path.join(scratch, "hypyc"), "tasks": tasks,
           "out": os.path.join(scratch, f"out_{tag}.json")}
    jp = os.path.join(scratch, f"job_{tag}.json")
    with open(jp, "w") as f:
        json.dump(job, f)
    p = subprocess.run([PY, CHILD, jp], capture_output=True, text=True, env=child_env(), cwd=scratch, timeout=600,
                       encoding="utf-8", errors="backslashreplace")
    if p.returncode != 0 or not os.path.exists(job["out"]):
        raise RuntimeError(f"C15 child {tag} failed (status {p.returncode}): {p.stderr[-1500:]}")
    with open(job["out"]) as f:
        return json.load(f)


# ======================================================================================================================
# part 1: which files are compiled as Hy
# ======================================================================================================================
def spec_is_hy_source(filename):
    """The property sentence: compiled as Hy exactly when the extension isn't one of Python's OTHER source suffixes.
    The extension is the last dot-suffix of the final path component (a leading dot of the name starts no extension);
    Python's own source suffixes are what importlib had before Hy added '.hy'."""
    python_suffixes = [s for s in importlib.machinery.SOURCE_SUFFIXES if s != ".hy"]
    return pathlib.PurePosixPath(filename).suffix not in python_suffixes


STEMS = ["mod", "a.b", ".hidden", "x.py", "x.hy", "UPPER", "with space", "ünï", "m.pyc", "-", "__init__", "__main__"]
EXTS = ["", ".hy", ".py", ".pyw", ".HY", ".PY", ".Py", ".txt", ".hy.py", ".py.hy", ".hy~", ".py~", ".hyc", ".pyc", ".pyi",
        ".lisp", ".", "..", ".hy.", ".py.", ".h", ".p", ".hyy", ".pyy", ".hy.bak", ".py.bak", ".hy ", ".py "]
DIRS = ["", "/abs/dir/", "rel/", "dir.py/", "dir.hy/", "/a.hy/b.py/", "./", "../"]


def part_ext_predicate(chk):
    chk.fn("hy/importer.py::_could_be_hy_src")
    bad, n, n_true, n_false = [], 0, 0, 0
    canary_differs = 0
    names = [d + s + e for d in DIRS for s in STEMS for e in EXTS] + [".py", ".hy", ".pyw", "/x/.py", "/x/.hy", "py", "hy"]
    for name in names:
        n += 1
        chk.case(("could_be_hy_src", name))
        want = spec_is_hy_source(name)
        got = himp._could_be_hy_src(name)
        n_true += got is True
        n_false += got is False
        if got is not want:
            bad.append((name, got, want))
        if name.endswith(".hy") != want:
            canary_differs += 1
    chk.bounds["file-name vocabulary"] = {"dirs": DIRS, "stems": STEMS, "extensions": EXTS, "names": n}
    chk.ob("ext/_could_be_hy_src equals `extension not in Python's own source suffixes`", not bad, "ex", "exhaustive_finite",
           detail=None if not bad else f"{len(bad)}/{n} names; first: _could_be_hy_src({bad[0][0]!r}) = {bad[0][1]!r}, specification {bad[0][2]!r}",
           replay=None if not bad else {"confirmed": True, "input": bad[0][0], "observed": bad[0][1], "expected": bad[0][2]})
    chk.ob("ext/both answers of the predicate occur in the vocabulary", n_true > 0 and n_false > 0, "ex", "exhaustive_finite",
           detail=f"true {n_true}, false {n_false}")
    chk.ob("ext/Python's own source suffixes are what importlib lists besides .hy, and .hy comes first",
           importlib.machinery.SOURCE_SUFFIXES[0] == ".hy" and ".py" in importlib.machinery.SOURCE_SUFFIXES
           and importlib.machinery.SOURCE_SUFFIXES.count(".hy") == 1, "rtc", "exhaustive_finite",
           detail=f"SOURCE_SUFFIXES = {importlib.machinery.SOURCE_SUFFIXES}")
    chk.canary("ext: a file is Hy source exactly when its name ends in .hy", canary_differs > 0)


FILE_EXTS = ["", ".hy", ".py", ".txt", ".HY", ".hy.py", ".py.hy", ".hyc", ".PY", ".lisp"]
HY_TEXT = "(setv lang \"hy\")\n(defmacro fm [x] `(+ ~x 1))\n(setv v (fm 41))\n"
PY_TEXT = "lang = \"py\"\nv = 40 + 2\n"


def part_ext_loaders(chk, scratch):
    """Hy-content and Python-content files under every extension, through the three loaders, from source and from cache."""
    chk.fn("hy/importer.py::_hy_source_to_code", "hy/importer.py::_get_code_from_file", "hy/importer.py::_hy_code_from_file",
           "hy/importer.py::HyLoader")
    d = os.path.join(scratch, "files")
    os.makedirs(d)
    files = []
    for how in ("loader", "hyloader", "runhy"):
        for lang, text in (("hy", HY_TEXT), ("py", PY_TEXT)):
            for i, ext in enumerate(FILE_EXTS):
                sub = os.path.join(d, f"{how}_{lang}_{i}")        # one directory per file: its own __pycache__
                os.makedirs(sub)
                stem = ".dotfile" if ext == "" and lang == "py" and how == "loader" else "prog"
                path = os.path.join(sub, stem + ext)
                with open(path, "w") as f:
                    f.write(text)
                files.append((path, how, lang, ext))
    tasks = [{"kind": "files", "tag": "f", "files": [[p, how] for p, how, _, _ in files]}]
    first = run_child(scratch, tasks, "files1")
    second = run_child(scratch, tasks, "files2")
    chk.extra["file_loads"] = 2 * len(files)
    agg = {}

    def note(name, ok, detail, inp):
        a = agg.setdefault(name, [0, 0, None])
        a[0] += 1
        if not ok:
            a[1] += 1
            a[2] = a[2] or (detail, inp)

    canary = 0
    for (path, how, lang, ext), r1, r2 in zip(files, first["results"][0]["files"], second["results"][0]["files"]):
        chk.case(("file", how, lang, ext))
        want_hy = spec_is_hy_source(path)
        inp = {"file": os.path.relpath(path, scratch), "content": lang, "through": how}
        note(f"ext/{how}/compiled as Hy exactly when the extension is not a Python source suffix",
             r1["compiled_as_hy"] is want_hy and (r1["compiled"] is True or (how == "runhy" and not want_hy)),
             f"{os.path.basename(path)!r}: hy_compile called: {r1['compiled_as_hy']}, expected {want_hy}; result {r1.get('error') or r1.get('values')}", inp)
        # the wrong clause "Hy exactly when the name ends in .hy" gives another verdict than the right one on every file
        # where the two specifications disagree, whatever the real code does (a regression towards the wrong clause is
        # then a violation of the right clause, not a void run)
        canary += (want_hy != path.endswith(".hy"))
        # the outcome follows from the language chosen: content in the chosen language runs, the other does not
        runs = "error" not in r1
        if (lang == "hy") == want_hy:
            okv = runs and r1["values"].get("lang") == ["v", "str", repr(lang)] and r1["values"].get("v") == ["v", "int", "42"]
        else:
            okv = not runs
        note(f"ext/{how}/{lang} content runs exactly when the file is taken for {lang.capitalize() if lang == 'hy' else 'Python'}", okv,
             f"{os.path.basename(path)!r} ({lang} content): {r1.get('error') or r1.get('values')}", inp)
        # second load: from bytecode, same result
        if runs:
            same = r2.get("values") == r1.get("values") and r2.get("macros") == r1.get("macros") and "error" not in r2
            note(f"ext/{how}/second load gives the same module", same,
                 f"{os.path.basename(path)!r}: first {r1.get('values')} {r1.get('macros')}; second {r2.get('error') or r2.get('values')} {r2.get('macros')}", inp)
            note(f"ext/{how}/second load uses the cached bytecode", r2["compiled"] is False and r2["compiled_as_hy"] is False,
                 f"{os.path.basename(path)!r}: compiled again: {r2['compiled']}", inp)
    for name, (n, nf, firstbad) in sorted(agg.items()):
        chk.ob(name, nf == 0, "rtc", "exhaustive_finite",
               detail=None if nf == 0 else f"{nf}/{n} files; first: {firstbad[0]}",
               replay=None if nf == 0 else {"confirmed": True, "input": firstbad[1], "observed": firstbad[0], "expected": name})
    chk.bounds["loader extensions"] = FILE_EXTS
    chk.canary("ext: the loaders compile a file as Hy exactly when its name ends in .hy", canary > 0)
    chk.ob("ext/child process writes and reads bytecode (no PYTHONDONTWRITEBYTECODE, no pycache prefix)",
           first["env_ok"] and second["env_ok"], "rtc", "exhaustive_finite", detail=f"{first['env_ok']} {second['env_ok']}")


# ======================================================================================================================
# part 3: end to end
# ======================================================================================================================
def first_diff(a, b, path=""):
    if type(a) is not type(b):
        return f"{path}: {a!r} != {b!r}"
    if isinstance(a, dict):
        for k in sorted(set(a) | set(b)):
            if k not in a or k not in b:
                return f"{path}/{k}: {'missing' if k not in a else a[k]!r} != {'missing' if k not in b else b[k]!r}"
            d = first_diff(a[k], b[k], f"{path}/{k}")
            if d:
                return d
        return None
    if isinstance(a, list):
        if len(a) != len(b):
            return f"{path}: {a!r} != {b!r}"
        for i, (x, y) in enumerate(zip(a, b)):
            d = first_diff(x, y, f"{path}[{i}]")
            if d:
                return d
        return None
    return None if a == b else f"{path}: {a!r} != {b!r}"


def as_snap(v):
    """The child's snapshot of a plain Python value (for the generator's predictions)."""
    if isinstance(v, (list, tuple)):
        return ["seq", type(v).__name__, [as_snap(x) for x in v]]
    return ["v", type(v).__name__, repr(v)]


def bump(paths, seconds):
    for p in paths:
        st = os.stat(p)
        os.utime(p, (st.st_atime + seconds, st.st_mtime + seconds))


def make_sourceless(src_root, dst_root, pkg):
    """Copy the package keeping only bytecode, in the legacy layout (mod.pyc next to where mod.hy was)."""
    n = 0
    for dirpath, dirnames, filenames in os.walk(os.path.join(src_root, pkg)):
        if os.path.basename(dirpath) != "__pycache__":
            continue
        rel = os.path.relpath(os.path.dirname(dirpath), src_root)
        os.makedirs(os.path.join(dst_root, rel), exist_ok=True)
        for fn in filenames:
            if fn.endswith(".pyc") and ".opt-" not in fn:
                shutil.copy2(os.path.join(dirpath, fn), os.path.join(dst_root, rel, fn.split(".")[0] + ".pyc"))
                n += 1
    return n


TABLES_CLAUSE = "macro tables exist alike from source and from bytecode"


class Package:
    def __init__(self, scratch, idx, seed, n_random):
        self.idx = idx
        self.p = gen.Pkg(f"hvc15_p{idx}", salt=(seed * 31 + idx * 17) % 1000)
        self.rng = random.Random(1000003 * (seed + 1) + idx)
        self.root = os.path.join(scratch, f"pkgroot{idx}")
        self.sl_root = os.path.join(scratch, f"pkgroot{idx}_sourceless")
        os.makedirs(self.root)
        self.clients = gen.catalogue(self.p) + [gen.untaken(self.p), gen.introspection(self.p), gen.side_effect_canary(self.p)] \
            + gen.random_clients(self.p, self.rng, n_random)
        self.files = gen.write_package(self.root, self.p, self.clients)
        self.client_names = [f"{self.p.name}.{c.mod}" for c in self.clients]
        self.client_files = [self.files[n] for n in self.client_names]
        self.other_files = [f for n, f in self.files.items() if n not in self.client_names]


def e2e_package(args):
    """All histories of one package (child processes run one after the other); returns the results by history tag."""
    scratch, pk, thorough = args
    P = pk.p.name
    names = pk.client_names
    res = {}

    def task(tag, kind="import", root=None, order=None):
        return {"kind": kind, "tag": tag, "root": root or pk.root, "modules": order or names, "probe": 5}

    def child(*tasks):
        """One child process; every task's result is filed under its tag, in the shape of a single-task run."""
        out = run_child(scratch, list(tasks), f"{P}_{tasks[0]['tag']}")
        for t, r in zip(tasks, out["results"]):
            res[t["tag"]] = dict(out, results=[r])

    def step(tag, **kw):
        child(task(tag, **kw))

    step("source")
    n = make_sourceless(pk.root, pk.sl_root, P)
    res["sourceless_files"] = n
    # processes that have never seen the sources being compiled: bytecode only, three ways.  One process each: inspect's
    # file-to-module cache (which hy.eval consults to find the calling module) would otherwise carry the `__main__` of
    # the run-as-main history over to the next history in the same process
    step("cache", order=list(reversed(names)))
    step("run-as-main", kind="runmod")
    step("sourceless", root=pk.sl_root)
    bump(pk.other_files, 5)
    step("macro-modules-recompiled")
    bump(pk.client_files, 7)
    step("clients-recompiled")
    if thorough:
        half = [f for i, f in enumerate(sorted(pk.files.values())) if pk.rng.random() < 0.5]
        bump(half, 11)
        res["half"] = half
        step("random-half-recompiled", order=pk.rng.sample(names, len(names)))
        step("cache-again")
    return res


def part_e2e(chk, scratch):
    chk.fn("hy/importer.py::_hy_source_to_code", "hy/core/result_macros.py::compile_require", "hy/macros.py::require",
           "hy/macros.py::require_vals", "hy/macros.py::require_reader", "hy/macros.py::import_module_from_string",
           "hy/macros.py::derive_target_module")
    thorough = chk.tier == "thorough"
    npk = 8 if thorough else 2
    nrand = 12 if thorough else 4
    chk.bounds["e2e packages"] = npk
    chk.bounds["e2e random client modules per package"] = nrand
    chk.bounds["e2e histories"] = ["source", "cache (reverse import order)", "macro-modules-recompiled", "clients-recompiled",
                                   "run-as-main", "sourceless"] + (["random-half-recompiled", "cache-again"] if thorough else [])
    packages = [Package(scratch, i, chk.seed, nrand) for i in range(npk)]
    # warm-up: fills the private bytecode directory of hy itself (one child, so that the others start fast)
    w = run_child(scratch, [], "warmup")
    chk.ob("e2e/child process writes and reads bytecode (no PYTHONDONTWRITEBYTECODE, no pycache prefix)", w["env_ok"] is True
           and w["dont_write_bytecode"] is False and w["pycache_prefix"] is None, "rtc", "bounded", detail=json.dumps({k: w[k] for k in ("env_ok", "dont_write_bytecode", "pycache_prefix")}))
    with ThreadPoolExecutor(max_workers=max(2, min(chk.jobs, npk))) as ex:
        results = list(ex.map(e2e_package, [(scratch, pk, thorough) for pk in packages]))

    agg = {}

    def note(name, ok, detail, inp=None):
        a = agg.setdefault(name, [0, 0, None])
        a[0] += 1
        if not ok:
            a[1] += 1
            a[2] = a[2] or (detail, inp)

    canary_seen = 0
    steps_cmp = ["cache", "macro-modules-recompiled", "clients-recompiled", "sourceless"] + (["random-half-recompiled", "cache-again"] if thorough else [])
    for pk, res in zip(packages, results):
        P = pk.p.name
        src = res["source"]["results"][0]
        realp = os.path.realpath
        all_files = sorted(realp(f) for f in pk.files.values())
        # ---- which modules were compiled in which step --------------------------------------------------------------
        want_compiled = {
            "source": all_files, "cache": [], "macro-modules-recompiled": sorted(realp(f) for f in pk.other_files),
            "clients-recompiled": sorted(realp(f) for f in pk.client_files), "run-as-main": [], "sourceless": [],
        }
        if thorough:
            want_compiled["random-half-recompiled"] = sorted(realp(f) for f in res["half"])
            want_compiled["cache-again"] = []
        for tag, want in want_compiled.items():
            r = res[tag]["results"][0]
            got = sorted(realp(f) for f in r["to_code"])
            note(f"e2e/history/{tag}/exactly the modules without valid bytecode are compiled", got == want and res[tag]["env_ok"],
                 f"{P}: compiled {[os.path.relpath(f, pk.root) for f in got][:8]}... ({len(got)}), expected {len(want)} files: "
                 f"{[os.path.relpath(f, pk.root) for f in sorted(set(got) ^ set(want))][:6]} differ")
            note(f"e2e/history/{tag}/every compiled module is compiled as Hy", sorted(realp(f) for f in r["compiled_hy"]) == got,
                 f"{P}: hy_compile saw {len(r['compiled_hy'])} of {len(got)} files")
        note("e2e/history/source/bytecode was written for every module",
             all(m.get("cached_exists") for m in src["modules"].values() if "error" not in m) and all(o["cached_exists"] for o in src["others"].values()),
             f"{P}: no .pyc for {[n for n, m in list(src['modules'].items()) + list(src['others'].items()) if not m.get('cached_exists')][:5]}")
        sl = res["sourceless"]["results"][0]
        loaders = {m.get("loader") for m in sl["modules"].values() if "error" not in m} | {o["loader"] for o in sl["others"].values()}
        note("e2e/history/sourceless/every module comes from a sourceless loader", loaders == {"SourcelessFileLoader"} and res["sourceless_files"] >= len(pk.files),
             f"{P}: loaders {sorted(map(str, loaders))}, {res['sourceless_files']} .pyc files for {len(pk.files)} modules")
        # ---- per client module --------------------------------------------------------------------------------------
        for c, name in zip(pk.clients, pk.client_names):
            chk.case(("e2e", P, c.mod))
            s = src["modules"][name]
            text = open(pk.files[name], encoding="utf-8").read()
            inp = {"module": name, "source": text}
            shape = c.shape
            if shape == "canary-compile-time-side-effect":
                differs = any(first_diff(s.get("values"), res[t]["results"][0]["modules"][name].get("values")) for t in ("cache", "sourceless"))
                canary_seen += bool(differs and "error" not in s)
                continue
            if "error" in s:
                note(f"e2e/{shape}/the module imports from source", False, f"{name}: {s['error']}\n{s.get('tb', '')[-600:]}", inp)
                continue
            note(f"e2e/{shape}/the module imports from source", True, None)
            # the generator's predictions (sanity of the comparison: the source import computed what the macros mean)
            for var, want in sorted(c.expect.items()):
                got = s["values"].get(var)
                note(f"e2e/{shape}/source import gives the predicted values", got == as_snap(want),
                     f"{name}: {var} = {got}, predicted {as_snap(want)}", inp)
            for i in range(len(c.uses)):
                f, k, cls = s["values"].get(f"f{i}"), c.expect[f"v{i}"], s["values"].get(f"K{i}")
                head, mac, tr = c.uses[i]
                w3 = pk.p.val(mac, tr(3))
                okf = bool(f) and f[0] == "fn" and f[3] == as_snap(w3)
                okc = bool(cls) and cls[0] == "class" and cls[3].get(f"a{i}") == as_snap(w3) and cls[3].get("meth") == ["method", as_snap(w3)]
                note(f"e2e/{shape}/source import gives the predicted values", okf and okc, f"{name}: f{i}(3) -> {f}, class K{i} -> {cls}, predicted {w3}", inp)
            if c.keys is not None:
                want_keys = sorted(hy.mangle(k) for k in c.keys)
                note(f"e2e/{shape}/_hy_macros holds exactly the documented names after the source import",
                     sorted(s["macros"]) == want_keys, f"{name}: keys {sorted(s['macros'])}, documented {want_keys}", inp)
            if c.rkeys is not None:
                note(f"e2e/{shape}/_hy_reader_macros holds exactly the required names after the source import",
                     sorted(s["readers"]) == sorted(c.rkeys), f"{name}: keys {sorted(s['readers'])}, expected {sorted(c.rkeys)}", inp)
            for tag in steps_cmp:
                o = res[tag]["results"][0]["modules"][name]
                if "error" in o:
                    for clause in ("values same", "_hy_macros same", "_hy_reader_macros same", "macro tables exist alike"):
                        note(f"e2e/{shape}/{clause} from source and from bytecode", False, f"{name} [{tag}]: {o['error']}", dict(inp, history=tag))
                    continue
                for clause, key in (("values", "values"), ("_hy_macros", "macros"), ("_hy_reader_macros", "readers")):
                    d = first_diff(s[key], o[key])
                    note(f"e2e/{shape}/{clause} same from source and from bytecode", d is None,
                         f"{name} [{tag}]: source vs {tag}: {d}", dict(inp, history=tag))
                tables = lambda m: {"_hy_macros": m["has_macro_table"], "_hy_reader_macros": m["has_reader_table"]}
                note(f"e2e/{shape}/{TABLES_CLAUSE}", tables(s) == tables(o),
                     f"{name} [{tag}]: the module's own table exists: from source {tables(s)}, {tag} {tables(o)}", dict(inp, history=tag))
            o = res["run-as-main"]["results"][0]["modules"][name]
            if "error" in o:
                note(f"e2e/{shape}/run as __main__ from bytecode: same values and macro names", False, f"{name}: {o['error']}", inp)
            else:
                d = first_diff(s["values"], o["values"]) or first_diff(sorted(s["macros"]), o["macros"]) or first_diff(sorted(s["readers"]), o["readers"])
                note(f"e2e/{shape}/run as __main__ from bytecode: same values and macro names", d is None, f"{name}: import from source vs run_module from bytecode: {d}", inp)
        # macro modules that were dragged in: their tables, too
        for tag in steps_cmp:
            o = res[tag]["results"][0]["others"]
            d = first_diff({k: {"macros": v["macros"], "readers": v["readers"]} for k, v in src["others"].items()},
                           {k: {"macros": v["macros"], "readers": v["readers"]} for k, v in o.items()})
            note("e2e/macro modules/macro and reader tables same from source and from bytecode", d is None, f"{P} [{tag}]: {d}")
    kinds = {}
    for name, (n, nf, firstbad) in sorted(agg.items()):
        chk.ob(name, nf == 0, "rtc", "bounded",
               detail=None if nf == 0 else f"{nf}/{n} comparisons; first: {firstbad[0]}",
               replay=None if nf == 0 or not firstbad[1] else {"confirmed": True, "input": firstbad[1], "observed": firstbad[0], "expected": name})
        kinds[name.split("/")[1]] = 1
    chk.extra["e2e_child_processes"] = npk * (8 if thorough else 6) + 1
    chk.extra["e2e_modules"] = sum(len(pk.files) for pk in packages)
    chk.canary("e2e: a module with a compile-time side effect (eval-when-compile) has the same values from source and from bytecode",
               canary_seen == len(packages))
    for pk in packages[:1]:
        for c in pk.clients[:3]:
            chk.sample({"shape": c.shape, "requires": c.requires, "expected": {k: v for k, v in list(c.expect.items())[:3]}})


# ======================================================================================================================
def run(chk):
    chk.level = "other"
    chk.explanation = ("bounded stand-ins: the extension predicate is compared with its specification over a finite file-name "
                       "vocabulary; the mirror contract of compile_require is checked for an enumerated product of require shapes; "
                       "generated packages are imported from source and from bytecode in child processes. None covers all "
                       "file names, all require forms or all modules; that CPython executes a .pyc like the code it was "
                       "compiled from is trusted.")
    chk.trust("CPython: executing a .pyc equals executing the code object it was marshalled from; .pyc validation by source mtime and size",
              "hy.mangle (C32) for the documented _hy_macros keys", "the generator's arithmetic oracle (macro NAME multiplies by A and adds B)",
              "the recording wrappers around hy.core.result_macros.require / require_reader and SourceFileLoader.source_to_code")
    os.makedirs("/root/scratch", exist_ok=True)
    scratch = os.path.realpath(tempfile.mkdtemp(prefix="c15_", dir="/root/scratch"))
    try:
        t = time.time()
        part_ext_predicate(chk)
        part_ext_loaders(chk, scratch)
        chk.extra["ext_wall_s"] = round(time.time() - t, 1)
        t = time.time()
        from hv.props import _c15_mirror
        _c15_mirror.part_mirror(chk, scratch)
        chk.extra["mirror_wall_s"] = round(time.time() - t, 1)
        t = time.time()
        part_e2e(chk, scratch)
        chk.extra["e2e_wall_s"] = round(time.time() - t, 1)
    finally:
        shutil.rmtree(scratch, ignore_errors=True)


def replay(path):
    from hv.replay import replay_file
    return replay_file(path)
