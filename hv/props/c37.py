"""C37 reader macros are defined and used in stream order and per module.

Run-time contracts on the real reader, compiler and macro functions, compared with a small reference model of the
documented semantics (hv/props/_c37_model.py: a table of reader macros per module and per reader, updated in stream
order):

1. component contracts on the real functions: every HyReader owns fresh tables; as_current_reader / using_reader /
   try_parse_one_form restore HyReader._current_reader on every exit (also exceptions); require_reader / enable_readers
   copy exactly the named entries and raise for unknown names; a reader macro returning None yields no form;
2. sessions of streams (definitions, uses in a collection and at top level, require :readers, plain forms, nested
   streams in another module) are enumerated up to a length bound, plus longer random ones, and run through
   hy.eval(hy.read_many(...)), through the importer (module files of a scratch package), through hy.repl.REPL, and
   through `hy -c` in subprocesses.  The forms the reader produces, the error, the values, the per-module
   `_hy_reader_macros`, the per-reader tables, HyReader._current_reader afterwards and the read/compile order of the
   top-level forms are compared with the model.
"""
import hv.symx.core  # noqa: F401  (puts /repo on sys.path, pre-imports hy)

import contextlib
import importlib
import io
import itertools
import multiprocessing
import os
import random
import shutil
import subprocess
import sys
import tempfile
import time
import types
from concurrent.futures import ThreadPoolExecutor

import hy
import hy.compiler as hcomp
import hy.importer as himp
import hy.macros as hmac
import hy.models as hmod
import hy.repl as hrepl
from hy.errors import HyLanguageError, HyRequireError
from hy.reader import read_many
from hy.reader.exceptions import LexException
from hy.reader.hy_reader import HyReader

from hv import core
from hv.props import _c37_model as M

META = {
    "engine": "rtc+ex",
    "level": "other",
    "technique": "run-time contracts on the real functions (HyReader.__init__, as_current_reader, using_reader, "
                 "try_parse_one_form, tag_dispatch, require_reader, enable_readers, read_many/Lazy, _compile_branch) plus a "
                 "differential against a reference model of the documented reader-macro semantics: all sessions of one or "
                 "two streams over a 20-op alphabet up to a length bound and random longer ones, run through hy.eval of "
                 "hy.read_many, the importer, hy.repl.REPL and `hy -c`, with the stream wrapped in a logging generator and "
                 "HyASTCompiler.compile wrapped to record the read/compile order",
    "text": "Bounded stand-in. For every enumerated session the real code produces exactly the forms the model predicts (a "
            "reader macro is usable in every later top-level form of its stream, a use before the definition is the syntax "
            "error `reader macro '#r' is not defined`, a reader macro returning None produces no form), require :readers "
            "brings in exactly the named reader macros and raises HyRequireError for unknown ones, the module tables and "
            "reader tables afterwards are the model's, no other module or reader is touched, HyReader._current_reader is "
            "restored after every stream and every exception, and top-level form k+1 is pulled from the stream only after "
            "form k has been compiled (with its compile-time parts evaluated).",
    "note": "Level other: sessions are bounded in length and alphabet. `evaluated` in the property is read as the docs of "
            "hy.read-many read it for hy.eval, the importer and `hy -c`: form k is compiled, and its compile-time parts "
            "(defreader, require, eval-and-compile) are evaluated, before form k+1 is read; the run-time evaluation of the "
            "whole stream follows (the REPL evaluates per input). Trusted: the logging wrappers, model equality of hy models, "
            "the reference model as the reading of docs/macros.rst and docs/api.rst.",
}

PY = sys.executable
_W = {}


# ======================================================================================================================
# instrumentation
# ======================================================================================================================
def logged(lazy, log, eager=False):
    """The same stream, with every pull and every form recorded (as hy.cmdline._printing_gen wraps it)."""
    def gen():
        k = 0
        it = iter(lazy)
        while True:
            log.append(("pull", k))
            try:
                m = next(it)
            except StopIteration:
                log.append(("end", k))
                return
            log.append(("got", k, m))
            yield m
            k += 1
    g = gen()
    if eager:                       # the documented WRONG way: all forms are read before any is compiled (canary)
        g = iter(list(g))
    out = hmod.Lazy(g)
    out.source, out.filename, out.reader = lazy.source, lazy.filename, lazy.reader
    return out


@contextlib.contextmanager
def compile_log(log):
    """Record the end of the compilation of every top-level form that the logging generator handed out."""
    real = hcomp.HyASTCompiler.compile

    def compile(self, tree):
        r = real(self, tree)
        for e in reversed(log):
            if e[0] == "got" and e[2] is tree:
                log.append(("compiled", e[1]))
                break
        return r
    hcomp.HyASTCompiler.compile = compile
    try:
        yield
    finally:
        hcomp.HyASTCompiler.compile = real


def lazy_ok(log):
    """form k+1 is pulled only after form k was compiled."""
    compiled = set()
    for e in log:
        if e[0] == "compiled":
            compiled.add(e[1])
        elif e[0] == "pull" and e[1] > 0 and (e[1] - 1) not in compiled:
            return False, f"form {e[1]} was pulled from the stream before form {e[1] - 1} was compiled: {[(x[0], x[1]) for x in log][:12]}"
    return True, None


def same_model(a, b):
    if type(a) is not type(b):
        return False
    if isinstance(a, hmod.Sequence):
        return len(a) == len(b) and all(same_model(x, y) for x, y in zip(a, b))
    return a == b


def table_of(d, builtin=()):
    return {k: (f.__doc__ if callable(f) else repr(f)) for k, f in (d or {}).items() if k not in builtin}


BUILTIN_READERS = frozenset(HyReader().reader_macros)


# ======================================================================================================================
# part 1: component contracts
# ======================================================================================================================
def part_components(chk):
    chk.fn("hy/reader/hy_reader.py::HyReader.__init__", "hy/reader/hy_reader.py::HyReader.as_current_reader",
           "hy/reader/hy_reader.py::HyReader.using_reader", "hy/reader/hy_reader.py::HyReader.current_reader",
           "hy/reader/hy_reader.py::HyReader.try_parse_one_form", "hy/reader/hy_reader.py::HyReader.tag_dispatch",
           "hy/reader/hy_reader.py::HyReader.parse_forms_until", "hy/macros.py::require_reader", "hy/macros.py::enable_readers",
           "hy/macros.py::reader_macro")
    # ---- fresh tables per reader ---------------------------------------------------------------------------------
    r1, r2 = HyReader(), HyReader()
    r1.reader_macros["hv-x"] = lambda *a: None
    r1.reader_table["@"] = lambda *a: None
    ok = ("hv-x" not in r2.reader_macros and "@" not in r2.reader_table and "hv-x" not in HyReader().reader_macros
          and "@" not in HyReader.DEFAULT_TABLE and r1.reader_macros is not r2.reader_macros and r1.reader_table is not r2.reader_table)
    chk.ob("component/HyReader.__init__/every reader owns fresh reader_macros and reader_table", ok, "rtc", "exhaustive_finite",
           detail=f"{sorted(r2.reader_macros)} {sorted(k for k in r2.reader_table if k == '@')}")
    chk.ob("component/HyReader.__init__/a new reader knows only the built-in tags", set(HyReader().reader_macros) == set(BUILTIN_READERS)
           and all(len(k) <= 2 for k in BUILTIN_READERS), "rtc", "exhaustive_finite", detail=str(sorted(HyReader().reader_macros)))

    # ---- _current_reader discipline: all nestings of depth <= 3 with an exception at every level --------------------
    bad = []
    n = 0
    for depth in (1, 2, 3):
        for raise_at in range(0, depth + 1):         # 0 = no exception
            for start in (None, "outer"):
                n += 1
                chk.case(("as_current_reader", depth, raise_at, start))
                readers = [HyReader() for _ in range(depth)]
                outer = HyReader() if start else None
                HyReader._current_reader = outer
                seen = []

                def nest(i):
                    if i == depth:
                        return
                    with readers[i].as_current_reader():
                        seen.append(HyReader._current_reader is readers[i])
                        nest(i + 1)
                        seen.append(HyReader._current_reader is readers[i])
                        if raise_at == i + 1:
                            raise KeyError("hv-c37")
                try:
                    nest(0)
                except KeyError:
                    pass
                if HyReader._current_reader is not outer or not all(seen):
                    bad.append((depth, raise_at, start))
                HyReader._current_reader = None
    chk.ob("component/as_current_reader/the reader is current inside and the previous one is restored on every exit", not bad, "rtc",
           "exhaustive_finite", detail=f"{len(bad)}/{n}: {bad[:3]}")
    # using_reader(override, create)
    bad = []
    for cur in (None, "cur"):
        for override in (None, "ovr"):
            for create in (True, False):
                for boom in (False, True):
                    chk.case(("using_reader", cur, override, create, boom))
                    c = HyReader() if cur else None
                    o = HyReader() if override else None
                    HyReader._current_reader = c
                    inside = "unset"
                    try:
                        with HyReader.using_reader(o, create=create):
                            inside = HyReader._current_reader
                            if boom:
                                raise KeyError("hv-c37")
                    except KeyError:
                        pass
                    want_inside_ok = (inside is o) if o else (inside is c) if c else (isinstance(inside, HyReader) if create else inside is None)
                    if not want_inside_ok or HyReader._current_reader is not c:
                        bad.append((cur, override, create, boom))
                    HyReader._current_reader = None
    chk.ob("component/using_reader/override, else the current reader, else a new one (if create); restored on every exit", not bad, "rtc",
           "exhaustive_finite", detail=str(bad[:4]))
    # try_parse_one_form: restored after a form, after a LexException, after an exception of a reader macro, at EOF
    bad = []
    for text, label in (("(a b)", "form"), ("#undefined-tag", "LexException"), ("#boom", "reader macro raises"), ("", "end of input"),
                        (")", "stray closer"), ("#none 1", "None"), ("#nest", "nested read in a reader macro")):
        for cur in (None, "cur"):
            chk.case(("try_parse_one_form", label, cur))
            c = HyReader() if cur else None
            HyReader._current_reader = c
            r = HyReader()
            inside = []
            r.reader_macros["boom"] = lambda rd, k: 1 / 0
            r.reader_macros["none"] = lambda rd, k: inside.append(HyReader._current_reader is rd)
            r.reader_macros["nest"] = lambda rd, k: list(hy.read_many("1 2"))
            r._set_source(io.StringIO(text), "<hv-c37>")
            try:
                got = r.try_parse_one_form()
                if label == "None" and (got is not None or inside != [True]):
                    bad.append((label, cur, "the reader macro did not run with its reader current, or produced a form"))
            except LexException:
                pass
            except Exception as e:
                bad.append((label, cur, f"foreign exception {type(e).__name__}"))
            if HyReader._current_reader is not c:
                bad.append((label, cur, "not restored"))
            HyReader._current_reader = None
    chk.ob("component/try_parse_one_form/_current_reader is the reader during the form and restored after it, also on errors", not bad,
           "rtc", "exhaustive_finite", detail=str(bad[:4]))

    # ---- a reader macro returning None yields no form ------------------------------------------------------------------
    bad = []
    for text, want in (("#none", []), ("#none #none", []), ("1 #none 2", [1, 2]), ("[1 #none 2 #none]", [[1, 2]]), ("#none [#none]", [[]]),
                       ("(f #none)", None), ("#val", ["v"]), ("#none #val #none", ["v"]), ("{#none}", [{}]), ("#( #none 1)", None)):
        chk.case(("none-yields-no-form", text))
        r = HyReader()
        r.reader_macros["none"] = lambda rd, k: None
        r.reader_macros["val"] = lambda rd, k: "v"
        forms = list(read_many(text, reader=r))
        if want is None:
            want_models = list(read_many(text.replace("#none", "")))
        else:
            want_models = [hmod.as_model(x) for x in want]
        if len(forms) != len(want_models) or not all(same_model(a, b) for a, b in zip(forms, want_models)):
            bad.append((text, [hy.repr(f) for f in forms]))
    chk.ob("component/tag_dispatch/a reader macro returning None produces no form, at top level and inside collections", not bad, "rtc",
           "bounded", detail=str(bad[:3]))
    # an undefined tag is a LexException naming it
    bad = []
    for tag in ("a", "foo", "a.b", "é", "!", "a-b?"):
        chk.case(("undefined-tag", tag))
        try:
            list(read_many(f"1 #{tag} 2"))
            bad.append((tag, "no error"))
        except LexException as e:
            if f"reader macro '#{tag}' is not defined" not in str(e.msg):
                bad.append((tag, e.msg))
        except Exception as e:
            bad.append((tag, type(e).__name__))
    chk.ob("component/tag_dispatch/an undefined tag is the syntax error `reader macro '#TAG' is not defined`", not bad, "rtc", "bounded",
           detail=str(bad[:3]))

    # ---- require_reader / enable_readers: exactly the named entries ----------------------------------------------------
    def mkmod(name, table=None):
        m = types.ModuleType(name)
        if table is not None:
            m._hy_reader_macros = dict(table)
        return m

    fa, fc, fn_, fold = (lambda r, k: "a"), (lambda r, k: "c"), (lambda r, k: None), (lambda r, k: "old")
    src_table = {"a": fa, "c": fc, "n": fn_}
    vocab = ["a", "c", "n", "zz"]
    bad_rr, bad_er, n = [], [], 0
    for k in range(0, 4):
        for names in itertools.permutations(vocab, k):
            for pre in ({}, {"a": fold, "old": fold}):
                n += 1
                chk.case(("require_reader", names, tuple(pre)))
                src, tgt = mkmod("hv_c37_src", src_table), mkmod("hv_c37_tgt", pre if pre else None)
                want = dict(pre)
                want_err = False
                for x in names:
                    if x not in src_table:
                        want_err = True
                        break
                    want[x] = src_table[x]
                try:
                    ret = hmac.require_reader(src, tgt, list(names))
                    err = False
                except HyRequireError:
                    ret, err = None, True
                except Exception as e:
                    ret, err = None, type(e).__name__
                got = getattr(tgt, "_hy_reader_macros", {})
                if err != want_err or got != want or src._hy_reader_macros != src_table or (not err and ret is not True):
                    bad_rr.append((names, sorted(pre), err, sorted(got)))
                # enable_readers on the same vocabulary
                rd = HyReader()
                mod = mkmod("hv_c37_en", src_table)
                want_e = {}
                want_err = False
                for x in names:
                    if x not in src_table:
                        want_err = True
                        break
                    want_e[x] = src_table[x]
                try:
                    hmac.enable_readers(mod, rd, list(names))
                    err = False
                except NameError:
                    err = True
                except Exception as e:
                    err = type(e).__name__
                got = {k2: v for k2, v in rd.reader_macros.items() if k2 not in BUILTIN_READERS}
                if err != want_err or got != want_e or mod._hy_reader_macros != src_table:
                    bad_er.append((names, err, sorted(got)))
    for pre in ({}, {"old": fold}):
        src, tgt = mkmod("hv_c37_src", src_table), mkmod("hv_c37_tgt", pre if pre else None)
        hmac.require_reader(src, tgt, "ALL")
        if tgt._hy_reader_macros != {**pre, **src_table}:
            bad_rr.append(("ALL", sorted(pre), sorted(tgt._hy_reader_macros)))
        rd = HyReader()
        hmac.enable_readers(mkmod("hv_c37_en", src_table), rd, "ALL")
        if {k2: v for k2, v in rd.reader_macros.items() if k2 not in BUILTIN_READERS} != src_table:
            bad_er.append(("ALL",))
    chk.bounds["require_reader / enable_readers name lists"] = f"all ordered selections of <= 3 names from {vocab} x 2 prior target tables, and ALL ({n} lists)"
    chk.ob("component/require_reader/copies exactly the named entries in order, HyRequireError at the first unknown name, source untouched",
           not bad_rr, "rtc", "exhaustive_finite", detail=f"{len(bad_rr)}/{n}: {bad_rr[:3]}")
    chk.ob("component/enable_readers/copies exactly the named entries into the reader, NameError at the first unknown name", not bad_er,
           "rtc", "exhaustive_finite", detail=f"{len(bad_er)}/{n}: {bad_er[:3]}")
    # ---- HyReader(use_current_readers=True): a copy of the calling module's table -------------------------------------------
    m = fresh_module("hv_c37_ucr")
    try:
        hy.eval(read_many('(defreader a "T" "T") (setv r-cur (hy.HyReader :use-current-readers True)) (setv r-new (hy.HyReader))'), module=m)
        cur, new = table_of(m.r_cur.reader_macros, BUILTIN_READERS), table_of(m.r_new.reader_macros, BUILTIN_READERS)
        m.r_cur.reader_macros["zz"] = lambda r, k: None
        ok = cur == {"a": "T"} and new == {} and "zz" not in m._hy_reader_macros and m.r_cur.reader_macros is not m._hy_reader_macros
        det = f"use_current_readers: {cur}; default: {new}; module table after changing the reader: {sorted(m._hy_reader_macros)}"
    except Exception as e:
        ok, det = False, f"{type(e).__name__}: {e}"
    finally:
        sys.modules.pop("hv_c37_ucr", None)
    chk.case(("use_current_readers",))
    chk.ob("component/HyReader.__init__/use_current_readers copies the calling module's reader macros, the default takes none", ok, "rtc",
           "exhaustive_finite", detail=det)
    # ---- a REPL started on a module that holds reader macros knows exactly those --------------------------------------------
    m = fresh_module("hv_c37_replmod")
    saved_io, saved_hooks = (sys.stdout, sys.stderr), (sys.displayhook, sys.excepthook)
    try:
        hy.eval(read_many('(defreader a "T" "T") (defreader n "N" None)'), module=m)
        sys.stdout = sys.stderr = io.StringIO()
        repl = hy.REPL(locals=m.__dict__)
        got = table_of(repl.compile.compiler.reader.reader_macros, BUILTIN_READERS)
        other = hy.REPL(locals={"__name__": "hv_c37_replmod2"})
        got2 = table_of(other.compile.compiler.reader.reader_macros, BUILTIN_READERS)
        ok, det = got == {"a": "T", "n": "N"} and got2 == {} and repl.compile.compiler.reader is not other.compile.compiler.reader, f"{got}; a REPL on another module: {got2}"
    except Exception as e:
        ok, det = False, f"{type(e).__name__}: {e}"
    finally:
        sys.stdout, sys.stderr = saved_io
        sys.displayhook, sys.excepthook = saved_hooks
        sys.modules.pop("hv_c37_replmod", None)
        sys.modules.pop("hv_c37_replmod2", None)
    chk.case(("repl-start",))
    chk.ob("component/REPL/a REPL starts with exactly the reader macros of its module, on a reader of its own", ok, "rtc", "exhaustive_finite", detail=det)
    # must-fail canary for the component level: "require_reader copies the whole source table whatever the names"
    # (the wrong clause must get another verdict than the right one on the same observation: then a regression of the real
    # function towards the wrong clause is a violation of the right clause above, not a void run)
    src, tgt = mkmod("hv_c37_src", src_table), mkmod("hv_c37_tgt")
    hmac.require_reader(src, tgt, ["a"])
    chk.canary("component: require_reader copies the whole table of the source module whatever names are given",
               (tgt._hy_reader_macros == {"a": fa}) != (tgt._hy_reader_macros == src_table))


# ======================================================================================================================
# part 2: sessions against the model
# ======================================================================================================================
# a session: tuple of streams; a stream: (reader id, ops)
def sessions_single(alphabet, maxlen):
    for n in range(1, maxlen + 1):
        for ops in itertools.product(alphabet, repeat=n):
            yield ((0, ops),)


def sessions_double(alphabet, maxlen):
    """two streams on the same module: the second with a fresh reader (1) or with the same reader (0)"""
    for n1 in range(1, maxlen + 1):
        for n2 in range(1, maxlen + 1):
            for a in itertools.product(alphabet, repeat=n1):
                for b in itertools.product(alphabet, repeat=n2):
                    for rid in (1, 0):
                        yield ((0, a), (rid, b))


def random_sessions(rng, n, maxlen):
    out = []
    for _ in range(n):
        streams = []
        for s in range(rng.choice((1, 1, 2, 3))):
            ops = []
            for _ in range(rng.randint(2, maxlen)):
                # bias towards definitions first so that long streams do not all abort early
                pool = M.ALPHABET if rng.random() < 0.6 else [op for op in M.ALPHABET if op[0] in ("def", "req", "plain")]
                ops.append(rng.choice(pool))
            streams.append((rng.choice((0, 0, s)), tuple(ops)))
        out.append(tuple(streams))
    return out


def session_key(sess):
    return repr(sess)


class Verdicts:
    """(clause, outcome class) -> [n, nfail, first failing detail]"""

    def __init__(self):
        self.agg = {}

    def note(self, clause, cls, ok, detail=None, inp=None):
        a = self.agg.setdefault((clause, cls), [0, 0, None])
        a[0] += 1
        if not ok:
            a[1] += 1
            if a[2] is None:
                a[2] = (detail, inp)

    def merge(self, other):
        for k, (n, nf, first) in other.items():
            a = self.agg.setdefault(k, [0, 0, None])
            a[0] += n
            a[1] += nf
            if a[2] is None:
                a[2] = first


def fresh_module(name):
    m = types.ModuleType(name)
    sys.modules[name] = m
    return m


def build_m1(name):
    m = fresh_module(name)
    hy.eval(read_many(M.m1_text()), module=m)
    return m


def observe_module_values(mod, prefix=("u", "p", "n", "s")):
    return {k: v for k, v in vars(mod).items() if k[0] in prefix and k[1:].isdigit()}


def compare_stream(v, path, sess_inp, out, obs, model_tables, obs_tables, model_reader, obs_reader, check_forms=True, cls=None):
    """Clause verdicts of one stream of a session."""
    cls = cls or out.cls
    if check_forms:
        want = [hy.read(t) for t in out.forms]
        got = obs["forms"]
        okf = len(got) == len(want) and all(same_model(a, b) for a, b in zip(got, want))
        v.note(f"{path}/the reader produces exactly the forms the model predicts", cls, okf,
               f"forms {[hy.repr(f) for f in got]}; model {[hy.repr(f) for f in want]}", sess_inp)
    if out.error:
        e = obs["error"]
        oke = e is not None and e[0] == out.error[0] and out.error[1] in e[1]
        v.note(f"{path}/the stream stops with the model's error", cls, oke, f"raised {e}; model {out.error}", sess_inp)
    else:
        v.note(f"{path}/the stream completes", cls, obs["error"] is None, f"raised {obs['error']}", sess_inp)
    want_vals = dict(out.ct_values)
    if not out.error:
        want_vals.update(out.values)
    v.note(f"{path}/values", cls, obs["values"] == want_vals, f"values {obs['values']}; model {want_vals}", sess_inp)
    v.note(f"{path}/per-module _hy_reader_macros are the model's (no other module touched)", cls, obs_tables == model_tables,
           f"tables {obs_tables}; model {model_tables}", sess_inp)
    if obs_reader is not None:
        v.note(f"{path}/the reader's own table is the model's", cls, obs_reader == model_reader,
               f"reader table {obs_reader}; model {model_reader}", sess_inp)
    v.note(f"{path}/HyReader._current_reader is restored after the stream", cls, obs["current_restored"], "left set", sess_inp)
    if obs.get("lazy") is not None:
        v.note(f"{path}/form k+1 is read only after form k was compiled", cls, obs["lazy"][0], obs["lazy"][1], sess_inp)
    if obs.get("leak") is not None:
        v.note(f"{path}/nothing leaks into an unrelated module, a new reader or the class-level tables", cls, obs["leak"][0], obs["leak"][1], sess_inp)


def leak_check(unrelated):
    det = []
    if getattr(unrelated, "_hy_reader_macros", None):
        det.append(f"unrelated module got {sorted(unrelated._hy_reader_macros)}")
    if set(HyReader().reader_macros) != set(BUILTIN_READERS):
        det.append(f"a new reader knows {sorted(set(HyReader().reader_macros) - set(BUILTIN_READERS))}")
    if any(k.startswith("#") and len(k) > 3 for k in HyReader.DEFAULT_TABLE):
        det.append("DEFAULT_TABLE changed")
    b = sys.modules.get("builtins")
    if any(k in getattr(b, "_hy_reader_macros", {}) for k in ("a", "b", "c", "n")):
        det.append("builtins._hy_reader_macros changed")
    return (not det, "; ".join(det))


# ---- path: hy.eval of hy.read_many -------------------------------------------------------------------------------
QUIRK_CLASS = "star-require on a fresh reader of a module that already holds other reader macros"


def run_eval_session(sess, v, hoist=False, eager=False, path="eval", report_quirk=True):
    names = {"m1": "hv_c37_m1", "m2": "hv_c37_m2"}
    m1 = _W.get("m1") or build_m1(names["m1"])
    _W["m1"] = m1
    sys.modules[names["m1"]] = m1
    m0, m2, m3 = fresh_module("hv_c37_m0"), fresh_module(names["m2"]), fresh_module("hv_c37_unrelated")
    spec = M.Model(hoist=hoist).predict_session(sess, names)
    today = M.Model(hoist=hoist, star_quirk=True).predict_session(sess, names)
    sensitive = not all(M.same_prediction(p, q) for p, q in zip(spec, today))
    readers = {}
    start = 0
    inp = {"session": [{"reader": rid, "text": M.stream_text(ops, names, 0)} for rid, ops in sess]}
    for si, (rid, ops) in enumerate(sess):
        R = readers.setdefault(rid, HyReader())
        text = M.stream_text(ops, names, start)
        log = []
        HyReader._current_reader = None
        before = dict(observe_module_values(m0))
        err = None
        with compile_log(log):
            try:
                hy.eval(logged(read_many(text, reader=R), log, eager=eager), module=m0)
            except HyLanguageError as e:
                err = (type(e).__name__, str(getattr(e, "msg", e)))
            except Exception as e:
                err = (type(e).__name__, str(e))
        vals = {k: x for k, x in observe_module_values(m0).items() if k not in before}
        obs = {"forms": [e[2] for e in log if e[0] == "got"], "error": err, "values": vals,
               "current_restored": HyReader._current_reader is None, "lazy": lazy_ok(log), "leak": leak_check(m3)}
        HyReader._current_reader = None
        obs_tables = {"M0": table_of(getattr(m0, "_hy_reader_macros", {})), "M1": table_of(getattr(m1, "_hy_reader_macros", {})),
                      "M2": table_of(getattr(m2, "_hy_reader_macros", {}))}
        stream_inp = dict(inp, failing_stream=text)
        obs_reader = table_of(R.reader_macros, BUILTIN_READERS)
        # sessions on which today's `:readers *` differs from the documented one are compared with today's behaviour under
        # the ordinary names (so that nothing else hides there) and with the documented behaviour under a class of their own
        out, tabs, rtab = (today if sensitive else spec)[si]
        compare_stream(v, path, stream_inp, out, obs, tabs, obs_tables, rtab, obs_reader)
        if sensitive and report_quirk:
            out, tabs, rtab = spec[si]
            compare_stream(v, path, stream_inp, out, obs, tabs, obs_tables, rtab, obs_reader, cls=QUIRK_CLASS)
        start += len(ops)
    for n in ("hv_c37_m0", names["m2"], "hv_c37_unrelated"):
        sys.modules.pop(n, None)


def _eval_worker(rng_):
    lo, hi = rng_
    v = Verdicts()
    for i in range(lo, hi):
        run_eval_session(_W["sessions"][i], v)
    return v.agg


def _eval_worker_s(r):
    return shallow(_eval_worker)(r)


def _eval_random_worker_s(r):
    return shallow(_eval_random_worker)(r)


def _import_worker_s(r):
    return shallow(_import_worker)(r)


def _repl_worker_s(r):
    return shallow(_repl_worker)(r)


def _eval_random_worker(rng_):
    lo, hi = rng_
    v = Verdicts()
    for i in range(lo, hi):
        run_eval_session(_W["random_sessions"][i], v, path="eval-random", report_quirk=False)
    return v.agg


# ---- path: the importer --------------------------------------------------------------------------------------------
def run_import_session(sess, v, root, idx):
    """One stream per session here (a module file is one stream): M0 = pkg.m0, M1 = pkg.m1 (imported by the first
    require, in the middle of M0's stream), M2 = pkg.m2."""
    pkg = f"hv_c37_pkg{idx}"
    d = os.path.join(root, pkg)
    os.makedirs(d)
    names = {"m1": f"{pkg}.m1", "m2": f"{pkg}.m2"}
    rid, ops = sess[0]
    text = M.stream_text(ops, names, 0)
    for fn, body in (("__init__.hy", ""), ("m0.hy", text), ("m1.hy", M.m1_text()), ("m2.hy", "(setv here 1)\n"), ("unrelated.hy", "(setv here 1)\n")):
        with open(os.path.join(d, fn), "w") as f:
            f.write(body)
    importlib.invalidate_caches()
    model = M.Model()
    out = model.run_stream(ops, 0, names, 0)
    logs = {}
    real_read_many = himp.read_many

    def logging_read_many(source, filename="<string>", **kw):
        lazy = real_read_many(source, filename=filename, **kw)
        if os.path.basename(os.path.dirname(str(filename))) == pkg:
            lg = logs.setdefault(os.path.basename(filename), [])
            logs.setdefault("readers", {})[os.path.basename(filename)] = lazy.reader
            return logged(lazy, lg)
        return lazy
    himp.read_many = logging_read_many
    HyReader._current_reader = None
    err = None
    unrelated = importlib.import_module(f"{pkg}.unrelated")
    inp = {"module file m0.hy": text, "m1.hy": M.m1_text()}
    try:
        with compile_log_multi(logs):
            try:
                m0 = importlib.import_module(f"{pkg}.m0")
            except HyLanguageError as e:
                m0, err = None, (type(e).__name__, str(getattr(e, "msg", e)))
            except Exception as e:
                m0, err = None, (type(e).__name__, str(e))
    finally:
        himp.read_many = real_read_many
    log = logs.get("m0.hy", [])
    m1, m2 = sys.modules.get(names["m1"]), sys.modules.get(names["m2"])
    obs = {"forms": [e[2] for e in log if e[0] == "got"], "error": err,
           "values": observe_module_values(m0) if m0 is not None else {k: x for k, x in out.ct_values.items()},
           "current_restored": HyReader._current_reader is None, "lazy": lazy_ok(log), "leak": leak_check(unrelated)}
    HyReader._current_reader = None
    cls = out.cls
    # forms, error, values, laziness, restoration
    model_tables = model.tables()
    obs_tables = {"M0": table_of(getattr(m0, "_hy_reader_macros", {})) if m0 is not None else model_tables["M0"],
                  "M1": table_of(getattr(m1, "_hy_reader_macros", {})) if m1 is not None else dict(model_tables["M1"]),
                  "M2": table_of(getattr(m2, "_hy_reader_macros", {})) if m2 is not None else {}}
    r0 = logs.get("readers", {}).get("m0.hy")
    compare_stream(v, "import", inp, out, obs, model_tables, obs_tables, model.reader_table(0),
                   table_of(r0.reader_macros, BUILTIN_READERS) if r0 is not None else None)
    # the reader of m1 (compiled in the middle of m0's stream) is another reader and got only m1's own definitions
    r1 = logs.get("readers", {}).get("m1.hy")
    if r1 is not None:
        okr = r1 is not r0 and table_of(r1.reader_macros, BUILTIN_READERS) == {k: t for k, (_, t) in M.M1_PRESET.items()}
        v.note("import/a module imported in the middle of the stream is read by its own reader, which sees only its own definitions",
               cls, okr, f"reader of m1: {table_of(r1.reader_macros, BUILTIN_READERS)}; same object as m0's reader: {r1 is r0}", inp)
        v.note("import/form k+1 of the nested module is read only after form k was compiled", cls, *lazy_ok(logs.get("m1.hy", [])), inp)
    for n in [k for k in sys.modules if k == pkg or k.startswith(pkg + ".")]:
        del sys.modules[n]
    shutil.rmtree(d, ignore_errors=True)


@contextlib.contextmanager
def compile_log_multi(logs):
    real = hcomp.HyASTCompiler.compile

    def compile(self, tree):
        r = real(self, tree)
        for name, log in list(logs.items()):
            if name == "readers":
                continue
            for e in reversed(log):
                if e[0] == "got" and e[2] is tree:
                    log.append(("compiled", e[1]))
                    return r
        return r
    hcomp.HyASTCompiler.compile = compile
    try:
        yield
    finally:
        hcomp.HyASTCompiler.compile = real


def _import_worker(rng_):
    lo, hi = rng_
    v = Verdicts()
    sessions, root = _W["import_sessions"], _W["import_root"]
    sub = os.path.join(root, f"w{lo}")
    os.makedirs(sub, exist_ok=True)
    sys.path.insert(0, sub)
    saved = sys.dont_write_bytecode
    sys.dont_write_bytecode = True
    try:
        for i in range(lo, hi):
            run_import_session(sessions[i], v, sub, i)
    finally:
        sys.dont_write_bytecode = saved
        sys.path.remove(sub)
    return v.agg


# ---- path: the REPL -------------------------------------------------------------------------------------------------
def run_repl_session(sess, v, group):
    """The ops of the session's streams are typed into one hy.repl.REPL, `group` forms per input: every input is a
    stream of its own on the REPL's one reader and module."""
    modname = "hv_c37_repl"
    names = {"m1": "hv_c37_m1", "m2": "hv_c37_m2"}
    m1 = _W.get("m1") or build_m1(names["m1"])
    _W["m1"] = m1
    sys.modules[names["m1"]] = m1
    sys.modules.pop(modname, None)
    m2, m3 = fresh_module(names["m2"]), fresh_module("hv_c37_unrelated")
    ops = [op for _, s in sess for op in s]
    model = M.Model()
    real_read_many = hrepl.read_many
    cur = {"log": None}

    def logging_read_many(source, **kw):
        lazy = real_read_many(source, **kw)
        return logged(lazy, cur["log"]) if cur["log"] is not None else lazy
    saved_io = sys.stdout, sys.stderr
    saved_hooks = sys.displayhook, sys.excepthook
    sink = io.StringIO()
    try:
        sys.stdout = sys.stderr = sink
        repl = hy.REPL(locals={"__name__": modname})
        hrepl.read_many = logging_read_many
        R = repl.compile.compiler.reader
        m0 = repl.module
        start = 0
        inp = {"inputs": [M.stream_text(ops[i:i + group], names, i) for i in range(0, len(ops), group)]}
        while start < len(ops):
            chunk = tuple(ops[start:start + group])
            text = M.stream_text(chunk, names, start)
            out = model.run_stream(chunk, 0, names, start)
            log = []
            cur["log"] = log
            HyReader._current_reader = None
            before = dict(observe_module_values(m0))
            sink.seek(0)
            sink.truncate()
            with compile_log(log):
                more = repl.runsource(text)
            cur["log"] = None
            shown = sink.getvalue()
            err = None
            if "reader macro '#" in shown and "is not defined" in shown:
                err = ("LexException", shown.strip().splitlines()[-1])
            elif "HyRequireError" in shown:
                err = ("HyRequireError", shown.strip().splitlines()[-1])
            elif "Traceback" in shown or "Error" in shown:
                err = ("other", shown.strip()[-300:])
            vals = {k: x for k, x in observe_module_values(m0).items() if k not in before}
            obs = {"forms": [e[2] for e in log if e[0] == "got"], "error": err, "values": vals,
                   "current_restored": HyReader._current_reader is None and more is False, "lazy": lazy_ok(log), "leak": leak_check(m3)}
            obs_tables = {"M0": table_of(getattr(m0, "_hy_reader_macros", {})), "M1": table_of(getattr(m1, "_hy_reader_macros", {})),
                          "M2": table_of(getattr(m2, "_hy_reader_macros", {}))}
            compare_stream(v, "repl", dict(inp, failing_input=text), out, obs, model.tables(), obs_tables, model.reader_table(0),
                           table_of(R.reader_macros, BUILTIN_READERS))
            start += group
    finally:
        hrepl.read_many = real_read_many
        sys.stdout, sys.stderr = saved_io
        sys.displayhook, sys.excepthook = saved_hooks
        HyReader._current_reader = None
        for n in (modname, names["m2"], "hv_c37_unrelated"):
            sys.modules.pop(n, None)


def _repl_worker(rng_):
    lo, hi = rng_
    v = Verdicts()
    for i in range(lo, hi):
        sess, group = _W["repl_sessions"][i]
        run_repl_session(sess, v, group)
    return v.agg


# ---- path: hy -c ----------------------------------------------------------------------------------------------------
def hy_c_jobs(chk, scratch, sessions):
    """`hy -c STREAM` in subprocesses.  The stream ends with a form printing the values; M1 and M2 are module files."""
    d = os.path.join(scratch, "hyc")
    os.makedirs(d)
    with open(os.path.join(d, "hv_c37_m1.hy"), "w") as f:
        f.write(M.m1_text())
    with open(os.path.join(d, "hv_c37_m2.hy"), "w") as f:
        f.write("(setv here 1)\n")
    names = {"m1": "hv_c37_m1", "m2": "hv_c37_m2"}
    env = dict(os.environ)
    env["PYTHONPATH"] = os.pathsep.join([core.REPO, d])
    env.pop("PYTHONDONTWRITEBYTECODE", None)
    env["PYTHONPYCACHEPREFIX"] = os.path.join(scratch, "pyc")
    env["PYTHONUTF8"] = "1"
    launcher = [PY, "-c", "import sys; from hy.cmdline import hy_main; sys.exit(hy_main())"]
    jobs = []
    for sess in sessions:
        rid, ops = sess[0]
        model = M.Model()
        out = model.run_stream(ops, 0, names, 0)
        text = M.stream_text(ops, names, 0)
        tail = ("(print \"HV-C37\" (hy.repr (dfor [k v] (.items (globals)) :if (and (in (get k 0) \"upns\") (.isdigit (cut k 1 None))) k v)))\n"
                "(print \"HV-C37-TABLE\" (hy.repr (dfor [k v] (.items _hy_reader_macros) k v.__doc__)))\n")
        jobs.append((sess, out, model, text, launcher + ["-c", text + tail], env, d))
    return jobs


def _run_cmd(job):
    sess, out, model, text, cmd, env, cwd = job
    try:
        p = subprocess.run(cmd, capture_output=True, text=True, env=env, cwd=cwd, timeout=120, encoding="utf-8", errors="backslashreplace")
        return p.returncode, p.stdout, p.stderr
    except subprocess.TimeoutExpired:
        return "timeout", "", ""


def part_hy_c(chk, scratch, sessions):
    jobs = hy_c_jobs(chk, scratch, sessions)
    warm = _run_cmd(((), None, None, "", jobs[0][4][:3] + ["-c", "(print 1)"], jobs[0][5], jobs[0][6]))
    with ThreadPoolExecutor(max_workers=max(2, chk.jobs)) as ex:
        results = list(ex.map(_run_cmd, jobs))
    v = Verdicts()
    for (sess, out, model, text, cmd, env, cwd), (rc, so, se) in zip(jobs, results):
        chk.case(("hy-c", session_key(sess)))
        inp = {"command": ["hy", "-c", text]}
        cls = out.cls
        if out.error:
            ok = rc == 1 and (out.error[1] in se) and out.error[0] in se and "HV-C37" not in so
            v.note("hy -c/the stream stops with the model's error and nothing of it runs", cls, ok, f"status {rc}; stdout {so[-200:]!r}; stderr {se[-300:]!r}; model {out.error}", inp)
        else:
            want_vals = dict(out.ct_values)
            want_vals.update(out.values)
            got_vals = got_tab = None
            for line in so.splitlines():
                if line.startswith("HV-C37-TABLE "):
                    got_tab = hy.eval(hy.read(line[len("HV-C37-TABLE "):]))
                elif line.startswith("HV-C37 "):
                    got_vals = hy.eval(hy.read(line[len("HV-C37 "):]))
            v.note("hy -c/the stream completes with the model's values", cls, rc == 0 and got_vals == want_vals,
                   f"status {rc}; values {got_vals}; model {want_vals}; stderr {se[-300:]!r}", inp)
            v.note("hy -c/the module's _hy_reader_macros is the model's", cls, got_tab == model.tables()["M0"],
                   f"table {got_tab}; model {model.tables()['M0']}", inp)
    chk.ob("hy -c/the command starts", warm[0] == 0 and warm[1].strip() == "1", "subprocess", "bounded", detail=f"{warm}")
    return v


# ======================================================================================================================
_BALLAST = []


def _worker_init():
    """Keep a sparse set of small objects alive in every worker, so that the allocator's arenas stay mapped between
    sessions (without it every session maps and unmaps memory dozens of times, which dominates the run time)."""
    objs = [(i,) for i in range(16 * 1024 * 1024 // 56)]
    _BALLAST.append(objs[::500])


def shallow(fn):
    """Run a worker function in a fresh thread.  A forked pool worker inherits the deep call stack of the checker and
    adds multiprocessing's own frames; CPython's frame stack is allocated in 16 KiB chunks that are unmapped as soon as
    the stack falls below a chunk boundary, and hy's deeply recursive compiler then maps and unmaps a chunk thousands of
    times per second (measured: 18 times slower at 50 extra frames).  A new thread starts with an empty frame stack."""
    def run_in_thread(arg):
        box = []

        def target():
            try:
                box.append((True, fn(arg)))
            except BaseException as e:          # handed to the caller
                box.append((False, e))
        import threading
        t = threading.Thread(target=target)
        t.start()
        t.join()
        ok, val = box[0]
        if not ok:
            raise val
        return val
    run_in_thread.__name__ = fn.__name__ + "_shallow"
    return run_in_thread


def pool_map(pool, chk, fn, n):
    if n == 0:
        return []
    step = max(1, n // (chk.jobs * 4))
    ranges = [(i, min(n, i + step)) for i in range(0, n, step)]
    if pool is not None:
        return pool.map(fn, ranges, chunksize=1)
    return [fn(r) for r in ranges]


def emit(chk, v, kind_of):
    for (clause, cls), (n, nf, first) in sorted(v.agg.items()):
        path = clause.split("/")[0]
        chk.ob(f"{clause}/{cls}", nf == 0, "subprocess" if path == "hy -c" else "rtc", kind_of(path),
               detail=None if nf == 0 else f"{nf}/{n} streams; first: {first[0]}\n  input: {first[1]}",
               replay=None if nf == 0 else {"confirmed": True, "input": first[1], "observed": first[0], "expected": clause})


def run(chk):
    chk.level = "other"
    chk.explanation = ("bounded stand-ins: component contracts are evaluated over small finite domains; sessions of streams are "
                       "enumerated completely up to a length bound over a fixed op alphabet and sampled beyond it, and compared with "
                       "a reference model of the documented semantics. Neither covers all streams or all reader-macro bodies.")
    chk.trust("the reference model (hv/props/_c37_model.py) as the reading of docs/macros.rst, docs/api.rst and the docstrings of "
              "hy.read-many, hy.models.Lazy and defreader", "structural equality of hy models (same_model)",
              "the logging generator around the Lazy stream and the wrapper around HyASTCompiler.compile",
              "`evaluated` = compiled with the compile-time parts evaluated (the whole stream runs afterwards; the REPL runs per input)")
    thorough = chk.tier == "thorough"
    rng = random.Random(1000003 * (chk.seed + 1) + 37)
    os.makedirs("/root/scratch", exist_ok=True)
    scratch = os.path.realpath(tempfile.mkdtemp(prefix="c37_", dir="/root/scratch"))
    saved_current = HyReader._current_reader
    try:
        t = time.time()
        part_components(chk)
        chk.extra["components_wall_s"] = round(time.time() - t, 1)

        # ---- the sessions (all prepared before the worker pool is forked) ------------------------------------------------
        full_len, red_len = (3, 4) if thorough else (2, 3)
        exhaustive = list(sessions_single(M.ALPHABET, full_len))
        seen = set(map(session_key, exhaustive))
        for s in sessions_single(M.REDUCED, red_len - 1):
            if session_key(s) not in seen:
                seen.add(session_key(s))
                exhaustive.append(s)
        longest = [((0, ops),) for ops in itertools.product(M.REDUCED, repeat=red_len)]
        exhaustive += longest[::3] if thorough else longest          # thorough: every third stream of length 4
        doubles = list(sessions_double(M.REDUCED, 1))
        for a in M.ALPHABET:                                          # every op once as first and once as second stream
            for b in M.REDUCED:
                for rid in (1, 0):
                    doubles += [((0, (a,)), (rid, (b,))), ((0, (b,)), (rid, (a,)))]
        if thorough:
            doubles += list(sessions_double(M.ALPHABET, 1))
        # fixed two-stream sessions whose second stream (on a fresh reader) uses what the first stream defined
        doubles += [((0, first), (1, second)) for first, second in (
            ((("def", "b", "val"),), (("req", "*"), ("use", "b"))),
            ((("def", "b", "none"),), (("req", "*"), ("top", "b"), ("use", "a"))),
            ((("def", "a", "val"), ("def", "b", "wrap")), (("req", ("a",)), ("use", "a"), ("use", "b"))),
            ((("def", "b", "val"),), (("use", "b"),)),
            ((("def", "b", "val"),), (("req", ("a", "c")), ("use", "c"), ("use", "b"))),
            ((("req", "*"),), (("use", "a"),)),
            ((("req", ("a", "zz")),), (("req", "*"), ("use", "a"))),
        )]
        if thorough:                                                  # 1 + 2 and 2 + 1 ops
            for a in M.REDUCED:
                for b in itertools.product(M.REDUCED, repeat=2):
                    for rid in (1, 0):
                        doubles += [((0, (a,)), (rid, b)), ((0, b), (rid, (a,)))]
        dseen = set()
        doubles = [s for s in doubles if not (session_key(s) in dseen or dseen.add(session_key(s)))]
        rand = random_sessions(rng, 1500 if thorough else 200, 10 if thorough else 8)
        rand1 = [s for s in rand if len(s) == 1]
        chk.bounds["op alphabet"] = [repr(op) for op in M.ALPHABET]
        chk.bounds["reduced alphabet"] = [repr(op) for op in M.REDUCED]
        chk.bounds["single streams"] = (f"all over the alphabet up to length {full_len}, all over the reduced alphabet up to length {red_len - 1}, "
                                        f"{'every third' if thorough else 'all'} of length {red_len} over the reduced alphabet: {len(exhaustive)}")
        chk.bounds["two-stream sessions"] = (f"all pairs of single ops (alphabet x reduced alphabet{', alphabet x alphabet, and all 1+2 and 2+1 op pairs over the reduced alphabet' if thorough else ''}), "
                                             f"second stream on a fresh reader or on the same reader: {len(doubles)}")
        chk.bounds["random sessions"] = f"{len(rand)} sessions of 1-3 streams of 2-{10 if thorough else 8} ops"
        imp = list(sessions_single(M.ALPHABET, 1)) + list(sessions_single(M.REDUCED, 3 if thorough else 2)) + rand1[: (400 if thorough else 40)]
        if thorough:
            imp += list(sessions_single(M.ALPHABET, 2))
        rs = [(s, 1) for s in sessions_single(M.ALPHABET, 2 if thorough else 1)] + [(s, g) for s in sessions_single(M.REDUCED, 3 if thorough else 2) for g in (1, 2)]
        rs += [(s, g) for s in rand[: (300 if thorough else 40)] for g in (1, 3)]
        _W["sessions"], _W["random_sessions"] = exhaustive + doubles, rand
        _W["import_sessions"], _W["import_root"] = imp, os.path.join(scratch, "imp")
        _W["repl_sessions"] = rs
        os.makedirs(_W["import_root"])
        build_m1("hv_c37_m1")
        _W["m1"] = sys.modules["hv_c37_m1"]
        pool = multiprocessing.get_context("fork").Pool(chk.jobs, initializer=_worker_init) if chk.jobs > 1 else None
        try:
            # ---- eval path ---------------------------------------------------------------------------------------------
            t = time.time()
            v_ex, v_rand = Verdicts(), Verdicts()
            for part in pool_map(pool, chk, _eval_worker_s, len(_W["sessions"])):
                v_ex.merge(part)
            for part in pool_map(pool, chk, _eval_random_worker_s, len(rand)):
                v_rand.merge(part)
            for s in exhaustive + doubles + rand:
                chk.case(("eval", session_key(s)))
            classes = {cls for (_, cls) in v_ex.agg}
            chk.ob("eval/every outcome class of the model is reached by the enumeration",
                   classes >= {"completes", "use before definition", "require of an unknown reader macro", QUIRK_CLASS}, "rtc",
                   "exhaustive_finite", detail=str(sorted(classes)))
            emit(chk, v_ex, lambda p: "exhaustive_finite")
            emit(chk, v_rand, lambda p: "bounded")
            chk.extra["eval_sessions"] = len(exhaustive) + len(doubles) + len(rand)
            chk.extra["eval_wall_s"] = round(time.time() - t, 1)
            # ---- importer path -----------------------------------------------------------------------------------------
            t = time.time()
            v_imp = Verdicts()
            for part in pool_map(pool, chk, _import_worker_s, len(imp)):
                v_imp.merge(part)
            for s in imp:
                chk.case(("import", session_key(s)))
            emit(chk, v_imp, lambda p: "bounded")
            chk.bounds["importer streams"] = (f"all single streams of length 1{' and 2' if thorough else ''} over the alphabet, up to length {3 if thorough else 2} over the "
                                              f"reduced alphabet, and random single streams: {len(imp)} module files")
            chk.extra["import_wall_s"] = round(time.time() - t, 1)
            # ---- REPL path ---------------------------------------------------------------------------------------------
            t = time.time()
            v_repl = Verdicts()
            for part in pool_map(pool, chk, _repl_worker_s, len(rs)):
                v_repl.merge(part)
            for s, g in rs:
                chk.case(("repl", g, session_key(s)))
            emit(chk, v_repl, lambda p: "bounded")
            chk.bounds["REPL sessions"] = f"{len(rs)} sessions typed 1, 2 or 3 forms per input into one hy.REPL"
            chk.extra["repl_wall_s"] = round(time.time() - t, 1)
        finally:
            if pool is not None:
                pool.close()
                pool.join()

        # ---- canaries ----------------------------------------------------------------------------------------------------
        vc = Verdicts()
        for s in sessions_single(M.REDUCED, 2):
            run_eval_session(s, vc, hoist=True)
        chk.canary("model: reader macros are visible from the start of their stream (hoisted definitions)",
                   any(nf for (_, _), (n, nf, _) in vc.agg.items()))
        vc = Verdicts()
        # (a reader-macro name that no other session uses, so that the canary does not depend on what earlier sessions left)
        for s in (((0, (("plain",), ("plain",))),), ((0, (("def", "hv-canary", "val"), ("use", "hv-canary"))),)):
            run_eval_session(s, vc, eager=True)
        chk.canary("laziness: a stream that is read completely before anything is compiled still satisfies the read-after-compile order",
                   any(nf for (c, _), (n, nf, _) in vc.agg.items() if "read only after" in c))
        chk.canary("laziness: a stream that is read completely before anything is compiled still finds its own reader macros",
                   any(nf for (c, _), (n, nf, _) in vc.agg.items() if "completes" in c))

        # ---- hy -c -----------------------------------------------------------------------------------------------------------
        t = time.time()
        fixed = [((0, ops),) for ops in (
            (("def", "a", "val"), ("use", "a")), (("use", "a"), ("def", "a", "val")), (("def", "a", "none"), ("use", "a"), ("top", "a")),
            (("def", "b", "wrap"), ("top", "b"), ("use", "b")), (("req", ("a", "c")), ("use", "a")), (("req", "*"), ("use", "a"), ("top", "a")),
            (("req", ("a", "zz")),), (("plain",), ("req", ("c",)), ("use", "a")), (("nested", "def-use"), ("use", "a")),
            (("def", "a", "val"), ("nested", "use"), ("def", "b", "val"), ("use", "b"), ("use", "a")),
            (("nested", "req-use"), ("def", "a", "wrap"), ("use", "a")), (("def", "a", "val"), ("def", "a", "none"), ("use", "a")),
        )]
        more = rand1[: (60 if thorough else 4)]
        v_c = part_hy_c(chk, scratch, fixed + more)
        emit(chk, v_c, lambda p: "bounded")
        chk.bounds["hy -c streams"] = f"{len(fixed)} fixed and {len(more)} random"
        chk.extra["hy_c_wall_s"] = round(time.time() - t, 1)
        for s in (exhaustive[25], exhaustive[-1], rand[0]):
            chk.sample({"session": [{"reader": rid, "text": M.stream_text(ops, {"m1": "M1", "m2": "M2"})} for rid, ops in s]})
    finally:
        HyReader._current_reader = saved_current
        shutil.rmtree(scratch, ignore_errors=True)


def replay(path):
    from hv.replay import replay_file
    return replay_file(path)
