"""C26 model constructors accept exactly what Hy syntax can express."""
import hv.symx.core  # noqa: F401  (puts /repo on sys.path, pre-imports hy)

import io
import itertools
import multiprocessing
import sys

import hy
import hy.models as hm
from hy.models import FString, Keyword, String, Symbol
from hy.reader.exceptions import LexException
from hy.reader.hy_reader import HyReader
from hy.reader.reader import isnormalizedspace

META = {
    "engine": "ex",
    "level": "other",
    "technique": "contract-based: the three constructor contracts (Symbol.__new__, Keyword.__init__, String.__new__ with "
                 "brackets) are stated as biconditionals against the real reader (hy.read_many) and evaluated on every string "
                 "up to a length bound over a partition alphabet computed from the live HyReader.NON_IDENT / DEFAULT_TABLE "
                 "(one representative per class of characters the reader distinguishes); the partition itself is justified by "
                 "complete set equations over all code points (dispatch keys, read_ident stop set, isnormalizedspace) and by "
                 "running both biconditionals on every code point in three contexts",
    "text": "Clauses: Symbol(s) succeeds (and is a Symbol equal to s) iff hy.read_many(s) yields exactly one form, a Symbol "
            "equal to s; Keyword(s) succeeds (name == s) iff hy.read_many(':' + s) yields exactly one Keyword with that name; "
            "String(s, brackets=d), d without square brackets, succeeds iff hy.read_many('#[' + d + '[' + s + ']' + d + ']') "
            "yields exactly one String (not an FString) equal to s with brackets == d. Set equations: the one-character "
            "dispatch keys are NON_IDENT + ':' + '#'; read_ident stops exactly at NON_IDENT and the six ASCII whitespace "
            "characters; isnormalizedspace is true exactly for those six.",
    "note": "Bounded: complete for the stated alphabets, lengths and delimiter list only (exhaustive_finite with the bound in the "
            "evidence); not a proof for all strings. Trusted: hy.read_many as the definition of what the syntax expresses.",
}

WS = " \t\n\r\f\v"


def alphabets():
    """Partition alphabets computed from the live reader tables."""
    non_ident = sorted(HyReader.NON_IDENT)
    keys = sorted(HyReader.DEFAULT_TABLE)
    single = [k for k in keys if len(k) == 1]
    followers = sorted({c for k in keys if len(k) > 1 for c in k[1:]})
    full = []
    for c in (non_ident + single + followers + list(" \n\r") + list(".1a-_") + ["λ", "\0", "@", "\\", "!", "f", "\xa0"]):
        if c not in full:
            full.append(c)
    # reduced alphabet for the longest length of the thorough tier: one closing bracket instead of three, one quote character
    # instead of three, two whitespace characters, no numeric extras (numeric classification is the same function on both sides)
    drop = set("]}`~\r^!@") | {"\xa0"}
    red = [c for c in full if c not in drop]
    return full, red


def read_all(text):
    """(forms, exception) of the real reader."""
    try:
        return list(hy.read_many(text)), None
    except LexException as e:
        return None, e
    except Exception as e:  # noqa: BLE001  (try_parse_one_form wraps everything; anything else is an internal error)
        return None, e


def sym_kw(s):
    """Results for one string: [(clause label, ok, detail)]."""
    out = []
    # --- Symbol
    try:
        r = Symbol(s)
        acc = True
        post = type(r) is Symbol and str(r) == s
    except ValueError:
        acc, post = False, True
    except Exception as e:  # noqa: BLE001
        acc, post = False, False
        r = e
    forms, exc = read_all(s)
    rd = forms is not None and len(forms) == 1 and type(forms[0]) is Symbol and str(forms[0]) == s
    seen = f"Symbol({s!r}) {'succeeds' if acc else 'raises'}; read_many({s!r}) -> {_show(forms, exc)}"
    out.append(("symbol/constructor accepts => the text reads as exactly that symbol", (not acc) or rd, seen))
    out.append(("symbol/the text reads as exactly that symbol => constructor accepts", (not rd) or acc, seen))
    out.append(("#symbols accepted by constructor and reader", acc and rd, None))
    out.append(("symbol/the constructor returns a Symbol equal to its argument or raises ValueError", post, seen))
    out.append(("reader/no internal error", exc is None or isinstance(exc, LexException), seen))
    # --- Keyword
    try:
        k = Keyword(s)
        acc = True
        post = type(k) is Keyword and k.name == s
    except ValueError:
        acc, post = False, True
    except Exception:  # noqa: BLE001
        acc, post = False, False
    forms, exc = read_all(":" + s)
    rd = forms is not None and len(forms) == 1 and type(forms[0]) is Keyword and forms[0].name == s
    seen = f"Keyword({s!r}) {'succeeds' if acc else 'raises'}; read_many({':' + s!r}) -> {_show(forms, exc)}"
    out.append(("keyword/constructor accepts => ':' + s reads as exactly that keyword", (not acc) or rd, seen))
    out.append(("keyword/':' + s reads as exactly that keyword => constructor accepts", (not rd) or acc, seen))
    out.append(("#keywords accepted by constructor and reader", acc and rd, None))
    out.append(("keyword/the constructor stores its argument as name or raises ValueError", post, seen))
    out.append(("reader/no internal error", exc is None or isinstance(exc, LexException), seen))
    return out


def _show(forms, exc):
    if forms is None:
        return f"{type(exc).__name__}"
    return "[" + ", ".join(f"{type(f).__name__}({str(f) if not isinstance(f, Keyword) else f.name!r})"
                           if isinstance(f, (str, Keyword)) else type(f).__name__ for f in forms[:4]) + "]"


# --- bracket strings ---------------------------------------------------------------------------------------------------

DELIMS = ["", "a", "f", "f-", "f-a", "fa", "af", "-", "==", "t", "t-a", " ", "\n", "λ", '"', "{", "(", "#", ";", "\\"]


def content_alphabet(d):
    out = []
    for c in ["]", "[", "\n", "\r", "{", "}", "\\", '"', "a", "λ"] + list(d):
        if c not in out:
            out.append(c)
    return out


def content_class(s, d):
    """Partition of the inputs (not of the outcomes): which documented reader rule the content/delimiter touches."""
    if d == "f" or d.startswith("f-"):
        return "delimiter selects an f-string"
    closing = "]" + d + "]"
    if closing not in s and closing in s + "]" + d:
        return "content and closing delimiter overlap"
    if s[:1] in ("\n", "\r"):
        return "content starts with a newline"
    if "\r" in s:
        return "content contains a carriage return"
    return "regular"


def bracket(s, d):
    try:
        m = String(s, brackets=d)
        acc = True
        post = type(m) is String and str(m) == s and m.brackets == d
    except ValueError:
        acc, post = False, True
    except Exception:  # noqa: BLE001
        acc, post = False, False
    text = "#[" + d + "[" + s + "]" + d + "]"
    forms, exc = read_all(text)
    rd = (forms is not None and len(forms) == 1 and type(forms[0]) is String and not isinstance(forms[0], FString)
          and str(forms[0]) == s and forms[0].brackets == d)
    cls = content_class(s, d)
    got = (f"{type(forms[0]).__name__}({str(forms[0])!r}, brackets={getattr(forms[0], 'brackets', None)!r})"
           if forms and isinstance(forms[0], str) else _show(forms, exc))
    seen = f"String({s!r}, brackets={d!r}) {'succeeds' if acc else 'raises'}; read_many({text!r}) -> {got}"
    out = [(f"{cls}/constructor accepts => the bracket string reads back", (not acc) or rd, seen),
           (f"{cls}/the bracket string reads back => constructor accepts", (not rd) or acc, seen)]
    out.append(("#bracket strings accepted by constructor and reader", acc and rd, None))
    out.append(("the constructor returns a String with that content and delimiter or raises ValueError", post, seen))
    return out


def _unchecked_string(cls, s, brackets):
    v = str.__new__(cls, s)
    v.brackets = brackets
    return v


# --- workers -------------------------------------------------------------------------------------------------------------

_ALPHA = {}


def _merge(agg, key, ok, seen, inp):
    a = agg.get(key)
    if a is None:
        a = agg[key] = [0, 0, None]
    a[0] += 1
    if not ok:
        a[1] += 1
        if a[2] is None:
            a[2] = (inp, seen)


def _job(job):
    kind = job[0]
    agg = {}
    n = 0
    if kind == "symkw":
        _, aname, L, prefix = job
        pre = "".join(prefix)
        for tup in itertools.product(_ALPHA[aname], repeat=L - len(prefix)):
            s = pre + "".join(tup)
            n += 1
            for label, ok, seen in sym_kw(s):
                _merge(agg, label if label[0] == "#" else f"strings/{aname}/len={L}/{label}", ok, seen, s)
    elif kind == "bracket":
        _, d, L = job
        for tup in itertools.product(content_alphabet(d), repeat=L):
            s = "".join(tup)
            n += 1
            for label, ok, seen in bracket(s, d):
                _merge(agg, label if label[0] == "#" else f"bracket-string/delimiter {d!r}/{label}", ok, seen, [s, d])
    elif kind == "codepoints":
        _, lo, hi, step = job
        for cp in range(lo, hi, step):
            c = chr(cp)
            for ctx, s in (("alone", c), ("after a letter", "a" + c), ("before a letter", c + "a")):
                n += 1
                for label, ok, seen in sym_kw(s):
                    _merge(agg, label if label[0] == "#" else f"code-points/{ctx}/{label}", ok, seen, s)
            # read_ident stop set, on the live reader
            r = HyReader()
            r._set_source(io.StringIO("a" + c + "b"), "<c26>")
            stops = r.read_ident() == "a"
            want = c in HyReader.NON_IDENT or c in WS
            _merge(agg, "set-equation/read_ident stops exactly at NON_IDENT and ASCII whitespace", stops == want,
                   f"read_ident('a' + {c!r} + 'b') stops: {stops}, expected {want}", c)
            _merge(agg, "set-equation/isnormalizedspace is true exactly for the six ASCII whitespace characters",
                   isnormalizedspace(c) == (c in WS), f"isnormalizedspace({c!r}) = {isnormalizedspace(c)}", c)
    return kind, n, agg


def run(chk):
    chk.level = "other"
    chk.explanation = ("bounded: every string up to the stated length over the partition alphabets, every code point in three "
                       "contexts and a fixed delimiter list are evaluated completely (exhaustive_finite); not a proof for all strings")
    full, red = alphabets()
    _ALPHA["full-alphabet"] = full
    _ALPHA["reduced-alphabet"] = red
    fname, rname = "full-alphabet", "reduced-alphabet"
    thorough = chk.tier == "thorough"

    # ---- set equations on the tables (complete)
    keys = set(HyReader.DEFAULT_TABLE)
    single = {k for k in keys if len(k) == 1}
    chk.ob("set-equation/one-character dispatch keys == NON_IDENT + ':' + '#'", single == set(HyReader.NON_IDENT) | {":", "#"},
           "ex", "exhaustive_finite", detail=f"keys {sorted(single)} NON_IDENT {sorted(HyReader.NON_IDENT)}")
    chk.ob("set-equation/every longer dispatch key starts with '#'", all(k[0] == "#" for k in keys - single) and len(keys - single) > 0,
           "ex", "exhaustive_finite", detail=str(sorted(keys - single)))
    r = HyReader()
    chk.ob("set-equation/a fresh reader ends identifiers at exactly NON_IDENT", set(r.ends_ident) == set(HyReader.NON_IDENT), "ex",
           "exhaustive_finite", detail=str(sorted(r.ends_ident)))
    chk.ob("vacuity/the partition alphabet contains every NON_IDENT character, ':', '#', '.', whitespace, NUL and a non-ASCII letter",
           set(HyReader.NON_IDENT) | set(":#. \n\0λ") <= set(full) and len(full) >= 30, "ex", "exhaustive_finite", detail=repr("".join(full)))

    # ---- jobs
    jobs = []
    maxL = 4
    for L in range(0, maxL + 1):
        k = 0 if L < 3 else 2
        jobs += [("symkw", fname, L, p) for p in itertools.product(full, repeat=k)]
    if thorough:
        jobs += [("symkw", rname, 5, p) for p in itertools.product(red, repeat=2)]
    maxc = 5 if thorough else 4
    for d in DELIMS:
        for L in range(0, maxc + 1):
            jobs.append(("bracket", d, L))
    top = sys.maxunicode + 1
    if thorough:
        jobs += [("codepoints", lo, min(lo + 0x800, top), 1) for lo in range(0, top, 0x800)]
    else:
        jobs += [("codepoints", lo, lo + 0x400, 1) for lo in range(0, 0x3000, 0x400)]
        jobs += [("codepoints", 0x3000 + i, top, 61 * 16) for i in range(0, 61 * 16, 61)]
    jobs.sort(key=lambda j: -({"symkw": 3, "codepoints": 2, "bracket": 1}[j[0]]))
    total, counts = {}, {}
    with multiprocessing.get_context("fork").Pool(chk.jobs) as pool:
        for kind, n, agg in pool.imap_unordered(_job, jobs, chunksize=1):
            counts[kind] = counts.get(kind, 0) + n
            for key, (cnt, bad, first) in agg.items():
                a = total.setdefault(key, [0, 0, None])
                a[0] += cnt
                a[1] += bad
                if first is not None and (a[2] is None or (len(first[0]), first[0]) < (len(a[2][0]), a[2][0])):
                    a[2] = first
    # identifier-shaped and number-shaped words: the partition alphabet has one letter per class, but the reader's numeric
    # cascade knows particular words (Inf, NaN, j, exponents, radix prefixes); the constructor must side with the reader on them
    words = set()
    for base in ("inf", "nan", "infinity"):
        for cased in {base, base.upper(), base.capitalize(), "NaN" if base == "nan" else base.title(), base[0].upper() + base[1:]}:
            for sign in ("", "+", "-"):
                for tail in ("", "j", "J", "_", ",", "+1j", "_j"):
                    words.add(sign + cased + tail)
    words |= {"j", "J", "1j", "1J", "e1", "1e1", "1E1", "0x1f", "0X1F", "0o7", "0b1", "_1", "1_", "1,0", ",1", ".5", "5.", "a.b", "...", ".",
              "True", "None", "False", "if", "def", "é", "x1", "a-b", "-", "+", "-1", "+a", "1+2j", "1+j", "0_x1"}
    for w in sorted(words):
        counts["symkw-words"] = counts.get("symkw-words", 0) + 1
        for label, ok, seen in sym_kw(w):
            a = total.setdefault(label, [0, 0, None])
            a[0] += 1
            if not ok:
                a[1] += 1
                if a[2] is None or (len(w), w) < (len(a[2][0]), a[2][0]):
                    a[2] = (w, seen)
    chk.bounds["words"] = f"{len(words)} identifier- and number-shaped words (casings of inf / nan / infinity with signs and suffixes, radix and exponent forms, keywords)"
    accepted = {k[1:]: v[0] - v[1] for k, v in total.items() if k[0] == "#"}
    chk.extra["accepted_by_both_sides"] = accepted
    chk.ob("vacuity/each clause has strings accepted by constructor and reader as well as rejected ones",
           len(accepted) == 3 and all(0 < n < total["#" + k][0] for k, n in accepted.items()), "ex", "exhaustive_finite", detail=str(accepted))
    for key, (cnt, bad, first) in sorted(total.items()):
        if key[0] == "#":
            continue
        rp = None
        detail = f"{cnt} cases"
        if bad:
            inp, seen = first
            # replay on the real code in this process
            again = (bracket(inp[0], inp[1]) if isinstance(inp, list) else sym_kw(inp))
            still = any(not ok for lb, ok, _ in again if lb[0] != "#") or key.startswith("set-equation")
            rp = {"confirmed": bool(still), "input": inp, "observed": seen, "expected": key.split("/", 2)[-1]}
            detail = f"{bad} of {cnt} cases fail; smallest: {seen}"
        chk.ob(key, bad == 0, "ex", "exhaustive_finite", detail=detail, replay=rp)
    want = sum(len(full) ** L for L in range(0, maxL + 1)) + (len(red) ** 5 if thorough else 0)
    chk.ob("vacuity/every string of the stated lengths was evaluated", counts.get("symkw") == want, "ex", "exhaustive_finite",
           detail=f"{counts.get('symkw')} of {want}")
    chk.evaluations += sum(counts.values())
    chk.bounds["strings"] = (f"Symbol and Keyword clauses: all strings of length 0..{maxL} over the {len(full)}-character partition "
                             f"alphabet {''.join(full)!r}"
                             + (f" and all strings of length 5 over the reduced {len(red)}-character alphabet {''.join(red)!r}" if thorough else ""))
    chk.bounds["bracket strings"] = (f"delimiters {DELIMS!r}; contents: all strings of length 0..{maxc} over "
                                     "']', '[', LF, CR, '{', '}', backslash, '\"', 'a', 'λ' and the characters of the delimiter")
    chk.bounds["code points"] = ("every code point U+0000..U+10FFFF" if thorough else
                                 "every code point below U+3000 and every 61st code point above") + \
        " alone, after and before a letter (Symbol and Keyword clauses, read_ident stop set, isnormalizedspace)"
    chk.extra["domain_sizes"] = counts
    chk.sample({"clause": "symbol", "input": "a.b", "constructor": "raises", "read": "one Expression (dotted form)"})
    chk.sample({"clause": "bracket string", "input": ["a]", ""], "text": "#[[a]]]"})

    # ---- canaries
    realY = hm.Symbol.__new__
    hm.Symbol.__new__ = lambda cls, s, from_parser=False: str.__new__(cls, s)      # syntax check removed
    try:
        drift = any(not ok for lb, ok, _ in sym_kw("a b") if lb[0] != "#")
    finally:
        hm.Symbol.__new__ = realY
    chk.canary("Symbol.__new__ replaced by a version without the syntax check (Symbol('a b') accepted)", drift)
    realS = hm.String.__new__
    hm.String.__new__ = lambda cls, s=None, brackets=None: _unchecked_string(cls, s, brackets)   # bracket check removed
    try:
        refuted = any(not ok for lb, ok, _ in bracket("]]", "") if lb[0] != "#")
    finally:
        hm.String.__new__ = realS
    chk.canary("String.__new__ replaced by a version without the bracket check (String(']]', brackets='') accepted)", refuted)
    chk.fn("hy/models.py::Symbol.__new__", "hy/models.py::Keyword.__init__", "hy/models.py::String.__new__",
           "hy/reader/hy_reader.py::as_identifier", "hy/reader/hy_reader.py::HyReader.read_default", "hy/reader/hy_reader.py::HyReader.keyword",
           "hy/reader/hy_reader.py::HyReader.bracketed_string", "hy/reader/reader.py::Reader.read_ident", "hy/reader/reader.py::isnormalizedspace")
    chk.trust("hy.read_many as the definition of what Hy syntax expresses",
              "the partition alphabet: characters outside it behave like their class representative (checked for every code point in "
              "three contexts, not for every position of longer strings)")


def replay(path):
    from hv.replay import replay_file
    return replay_file(path)
