"""C20 helpers: deep model equality, the form vocabulary, rendering with separators, pool workers.

A form is a tree
    ("A", text)                         atom: a text that read alone is exactly one model
    ("Q", opener, closer, cls, kids)    bracketed sequence
    ("P", prefix, head, kids)           sugar: prefix + kid (for #^ : two kids, written TYPE TARGET)
The expected models are built from the tree (atoms read alone; sequences and sugar built from the documented
meaning), so the expectation does not depend on how the reader treats the separators under test.
"""
import random

import hv.symx.core  # noqa: F401  (puts /repo on sys.path)
import hy
import hy.models as hm
from hy.reader.exceptions import LexException, PrematureEndOfInput

# ---- specification constants (written from /repo/docs/syntax.rst, not from the code) -----------------
DOC_WS = "\t\n\x0b\x0c\r "                      # U+0009 U+000A U+000B U+000C U+000D U+0020
DOC_NON_IDENT = "()[]{};\"'`~"                  # "Identifiers": characters that can't be in an identifier
SUGAR = (                                       # "Additional sugar" table + docs/api.rst `annotate`
    ("quote", "'"), ("quasiquote", "`"), ("unquote", "~"), ("unquote-splice", "~@"),
    ("unpack-iterable", "#*"), ("unpack-mapping", "#**"), ("annotate", "#^"),
)
HEAD_OF = {p: h for h, p in SUGAR}

POS_ATTRS = frozenset(("_start_line", "_end_line", "_start_column", "_end_column", "reader"))


# ---- deep equality: type, value and every non-position attribute at every node ------------------------
def tname(t):
    return f"{t.__module__}.{t.__qualname__}"


def canon(m):
    if type(m).__name__ == "Opaque" and hasattr(type(m), "_c20_opaque"):
        return ("opaque", object.__getattribute__(m, "tokname"))
    t = type(m)
    if not isinstance(m, hm.Object):
        return ("non-model", tname(t), repr(m))
    attrs = tuple(sorted(
        (k, canon(v) if isinstance(v, hm.Object) else ("py", type(v).__name__, repr(v)))
        for k, v in vars(m).items() if k not in POS_ATTRS))
    kids = ()
    if isinstance(m, tuple):
        val = None
        kids = tuple(canon(x) for x in tuple.__iter__(m))
    elif isinstance(m, str):
        val = str.__str__(m)
    elif isinstance(m, bytes):
        val = bytes(m)
    elif isinstance(m, int):
        val = ("int", int(m))
    elif isinstance(m, float):
        val = ("float", float.__repr__(m))
    elif isinstance(m, complex):
        val = ("complex", complex.__repr__(m))
    else:
        val = None
    return (tname(t), val, attrs, kids)


def c_sym(name):
    return ("hy.models.Symbol", name, (), ())


def c_seq(cls, kids):
    return ("hy.models." + cls, None, (), tuple(kids))


def show(c, depth=0):
    """Compact rendering of a canonical model for messages."""
    if not isinstance(c, tuple) or len(c) != 4:
        return repr(c)
    t, val, attrs, kids = c
    t = t.rsplit(".", 1)[-1]
    a = "".join(f" {k}={v[2] if v[0] == 'py' else show(v)}" for k, v in attrs if not (v[0] == "py" and v[2] in ("None", "False")))
    if t == "Keyword":
        return f"Keyword{a}"
    if val is None:
        return f"{t}[{' '.join(show(k) for k in kids)}]{a}"
    return f"{t}({val[1] if isinstance(val, tuple) else val!r}){a}"


def read_c(text, reader=None):
    """('ok', [canon...]) | ('premature', msg) | ('lex', msg) | ('other', repr)."""
    try:
        return ("ok", [canon(m) for m in hy.read_many(text, reader=reader)])
    except PrematureEndOfInput as e:
        return ("premature", str(getattr(e, "msg", e)))
    except LexException as e:
        return ("lex", str(getattr(e, "msg", e)))
    except BaseException as e:  # noqa: BLE001
        return ("other", f"{type(e).__name__}: {e}")


# ---- vocabulary ----------------------------------------------------------------------------------------
def A(t):
    return ("A", t)


def Q(o, c, cls, *kids):
    return ("Q", o, c, cls, tuple(kids))


def P(prefix, *kids):
    return ("P", prefix, HEAD_OF[prefix], tuple(kids))


BRACKETS = (("(", ")", "Expression"), ("[", "]", "List"), ("{", "}", "Dict"), ("#{", "}", "Set"), ("#(", ")", "Tuple"))

ATOMS = [
    # symbols (incl. dotted, all dots, non-ASCII whitespace inside, trailing #, leading @)
    "a", "foo-bar!", "a.b.c", ".meth", "...", "x\xa0y", "z w", "x#", "@m", "None", "1/2", "->", "*",
    # numbers
    "1", "-2.5e3", "3j", "1_000", "0x1F", "+7", "NaN",
    # keywords
    ":kw", ":",
    # strings of every flavour; comment/discard/bracket characters inside must stay content
    '"s"', '""', '"two\nlines ; not a comment #_ (\n"', '"q\\"uote"', 'r"raw\\d"', 'b"by"', 'rb"r\\b"',
    'f"x{y}z"', 'f"{(+ 1 2) !r:>{w}}"', 'f"{a =}"',
    "#[[br ; ] str]]", "#[f-x[a{b}c]f-x]", "#[==[\nafter newline]=]]==]",
]

VOCAB = [A(t) for t in ATOMS] + [
    Q("(", ")", "Expression"),
    Q("(", ")", "Expression", A("f"), A("x")),
    Q("[", "]", "List", A("1"), A("2")),
    Q("[", "]", "List"),
    Q("{", "}", "Dict", A('"a"'), A("1")),
    Q("#{", "}", "Set", A("1"), A("2")),
    Q("#(", ")", "Tuple", A("1"), A("2")),
    Q("#(", ")", "Tuple"),
    Q("(", ")", "Expression", A("a"), Q("[", "]", "List", A("b"), Q("{", "}", "Dict", A("c"), Q("#(", ")", "Tuple", A("d"), Q("#{", "}", "Set", A("e")))))),
    P("'", A("q")),
    P("'", Q("(", ")", "Expression", A("1"), A("2"))),
    P("`", Q("(", ")", "Expression", A("a"), P("~", A("b")), P("~@", A("c")))),
    P("~", A("u")),
    P("~@", Q("[", "]", "List", A("s"))),
    P("#*", A("args")),
    P("#**", A("kw")),
    P("#^", A("int"), A("x")),
    P("#^", Q("(", ")", "Expression", A("of"), A("List"), A("int")), Q("[", "]", "List", A("b"), A("None"))),
    P("'", P("'", A("qq"))),
]

# small vocabulary for the bracket-interior enumeration
KIDS = [A("a"), A("1"), A(":k"), A('"s"'), A("x#"), A("f\"{y}\""), A("#[[b]]"), A("a.b"), Q("(", ")", "Expression", A("g")),
        Q("[", "]", "List"), Q("#{", "}", "Set", A("1")), P("'", A("q")), P("~@", A("c")), P("#*", A("r")), P("#^", A("t"), A("v"))]

# separators under test ------------------------------------------------------------------------------------
WS_SEPS = [" ", "\t", "\n", "\r", "\f", "\v", "\r\n"]
COMMENT_SEPS = ["; comment\n", ";\n", ";;; ) ] } \" ' ` ~ #_ ( [ { :k 1\n"]
DISCARD_SEPS = ["#_ junk ", "#_(nested (junk)) ", "#_ #_ a b ", "#_\"str ; (\" ", "#_ ; c\n [1 #_ 2] "]
SINGLE_SEPS = WS_SEPS + COMMENT_SEPS + DISCARD_SEPS
EOF_ONLY_SEPS = ["; comment at end of input", ";"]


def combos(k=2):
    out = list(SINGLE_SEPS)
    if k >= 2:
        out += [a + b for a in SINGLE_SEPS for b in SINGLE_SEPS]
    return out


PAIR_SEPS = combos(2)

_ATOM_CACHE = {}


def atom_canon(text):
    c = _ATOM_CACHE.get(text)
    if c is None:
        st, forms = read_c(text)
        if st != "ok" or len(forms) != 1:
            # never equal to a model: every comparison involving this atom is reported
            c = _ATOM_CACHE[text] = ("atom does not read alone as one form", text, st, str(forms), None)
        else:
            c = _ATOM_CACHE[text] = forms[0]
    return c


def expected(form):
    k = form[0]
    if k == "A":
        return atom_canon(form[1])
    if k == "Q":
        return c_seq(form[3], [expected(x) for x in form[4]])
    _, prefix, head, kids = form
    ks = [expected(x) for x in kids]
    if prefix == "#^":
        typ, target = ks
        return c_seq("Expression", [c_sym(head), target, typ])      # (annotate TARGET TYPE)
    return c_seq("Expression", [c_sym(head)] + ks)


# ---- rendering -------------------------------------------------------------------------------------------
def glued(p):
    """True when text ending in character p is inside an identifier-like token (an identifier, number, keyword,
    reader-macro name): anything that isn't ASCII whitespace or one of the documented non-identifier characters."""
    return p is not None and p not in DOC_WS and p not in DOC_NON_IDENT


def admissible(sep, prev, nxt):
    """Is `sep` a separator at a boundary whose preceding character is `prev` (None at the start of the text) and
    whose following text starts with `nxt` (None: end of text or a closing bracket)?
    - after an identifier-like token a separator must start with whitespace or `;` (`#` is an identifier character,
      so `a#_ x` is the symbol `a#_`; `#*#_` is a reader-macro name), and if a form follows it must be non-empty;
    - `~` directly followed by `@` is the `~@` sugar."""
    if glued(prev):
        if sep.startswith("#"):
            return False
        if sep == "" and nxt is not None and nxt not in DOC_NON_IDENT:
            return False
        if sep == "" and nxt == '"':
            return False                 # identifier directly followed by " is a string prefix
    if prev == "~" and sep == "" and nxt == "@":
        return False
    return True


class Renderer:
    """Renders a form sequence, asking `choose(boundary_index, kind)` for the separator at every boundary.
    kind: 'top' (before/between/after top-level forms), 'in' (inside brackets), 'sugar' (prefix-form gap).
    A chosen separator that isn't admissible at the boundary gets a space in front (or becomes a space)."""

    def __init__(self, choose):
        self.choose = choose
        self.out = []
        self.last = None
        self.n = 0

    def emit(self, s):
        if s:
            self.out.append(s)
            self.last = s[-1]

    def sep(self, kind, nxt, default):
        s = self.choose(self.n, kind, default)
        self.n += 1
        if not admissible(s, self.last, nxt):
            s = " " + s if s else " "
        self.emit(s)

    def form(self, f):
        k = f[0]
        if k == "A":
            self.emit(f[1])
        elif k == "Q":
            _, o, c, _, kids = f
            self.emit(o)
            for i, x in enumerate(kids):
                self.sep("in", first_char(x), "" if i == 0 else " ")
                self.form(x)
            self.sep("in", None, "")
            self.emit(c)
        else:
            _, prefix, _, kids = f
            self.emit(prefix)
            for i, x in enumerate(kids):
                self.sep("sugar", first_char(x), "" if i == 0 else " ")
                self.form(x)

    def seq(self, forms):
        for i, f in enumerate(forms):
            self.sep("top", first_char(f), "" if i == 0 else " ")
            self.form(f)
        self.sep("top", None, "")
        return "".join(self.out)


def first_char(f):
    return f[1][0] if f[0] in ("A", "Q", "P") else None


def render(forms, choose=None):
    return Renderer(choose or (lambda i, kind, default: default)).seq(forms)


def n_boundaries(forms):
    r = Renderer(lambda i, kind, default: default)
    r.seq(forms)
    return r.n


def check_text(text, want):
    """None if reading `text` gives exactly the canonical models `want`, else {input, observed, expected}."""
    st, got = read_c(text)
    if st == "ok" and got == want:
        return None
    return {"input": text, "observed": [show(g) for g in got] if st == "ok" else f"{st}: {got}",
            "expected": [show(w) for w in want]}


# ---- pool workers (module level; arguments are index ranges) -------------------------------------------------
def _variants(forms, seps, limit_positions=None):
    """texts: every separator at each single boundary (defaults elsewhere) and at all boundaries at once."""
    n = n_boundaries(forms)
    for s in seps:
        for b in range(n):
            yield render(forms, lambda i, kind, d, s=s, b=b: s if i == b else d)
        yield render(forms, lambda i, kind, d, s=s: s)


REP_SECOND = ("a", "@m", "1", ":kw", '"s"', "#[[br ; ] str]]", "(f x)", "#{1 2}", "'q", "#* args")


def w_pairs(args):
    """ordered pairs of VOCAB with every separator between them: all PAIR_SEPS (full), or PAIR_SEPS when the second form is
    one of the representatives REP_SECOND and the single separators otherwise (quick)."""
    lo, hi, full = args
    n = len(VOCAB)
    bad, cnt = [], 0
    for idx in range(lo, hi):
        f1, f2 = VOCAB[idx // n], VOCAB[idx % n]
        want = [expected(f1), expected(f2)]
        for s in (PAIR_SEPS if full or render([f2]) in REP_SECOND else SINGLE_SEPS):
            text = render([f1, f2], lambda i, kind, d, s=s: s if (i, kind) == (_between([f1, f2]), "top") else d)
            cnt += 1
            m = check_text(text, want)
            if m and len(bad) < 5:
                bad.append(m)
    return cnt, bad


_BETWEEN = {}


def _between(forms):
    """index of the top-level boundary between forms[0] and forms[1]"""
    key = id(forms[0])
    v = _BETWEEN.get(key)
    if v is None:
        v = _BETWEEN[key] = n_boundaries([forms[0]]) - 1
    return v


def w_single(args):
    """each VOCAB form alone: every single/pair separator at every boundary (leading, inside, sugar gap, trailing)."""
    lo, hi = args
    bad, cnt = [], 0
    for idx in range(lo, hi):
        f = VOCAB[idx]
        want = [expected(f)]
        for text in _variants([f], [""] + PAIR_SEPS):
            cnt += 1
            m = check_text(text, want)
            if m and len(bad) < 5:
                bad.append(m)
        for s in EOF_ONLY_SEPS:
            for lead in ("", " ", "\n"):
                cnt += 1
                m = check_text(render([f]) + lead + s, want)      # `;` ends an identifier, so no space is needed
                if m and len(bad) < 5:
                    bad.append(m)
    return cnt, bad


def w_brackets(args):
    """every bracket kind x ordered pairs of KIDS (and 0, 1, 3 kids) x every single separator at every interior boundary."""
    lo, hi = args
    n = len(KIDS)
    bad, cnt = [], 0
    for idx in range(lo, hi):
        b, rest = divmod(idx, n * n)
        o, c, cls = BRACKETS[b]
        k1, k2 = KIDS[rest // n], KIDS[rest % n]
        f = Q(o, c, cls, k1, k2)
        want = [expected(f)]
        for text in _variants([f], [""] + SINGLE_SEPS):
            cnt += 1
            m = check_text(text, want)
            if m and len(bad) < 5:
                bad.append(m)
    return cnt, bad


def w_seqs(args):
    """form sequences of a given length: index range of the product VOCAB^length (or a seeded sample of it);
    one separator at all boundaries for each single separator, plus seeded random mixed separators."""
    length, lo, hi, seed, sample, seps = args
    n = len(VOCAB)
    rnd = random.Random(seed * 1000003 + lo)
    bad, cnt = [], 0
    total = n ** length
    for j in range(lo, hi):
        idx = rnd.randrange(total) if sample else j
        forms = []
        for _ in range(length):
            idx, r = divmod(idx, n)
            forms.append(VOCAB[r])
        want = [expected(f) for f in forms]
        texts = []
        if not sample:
            texts += [render(forms, lambda i, kind, d, s=s: s if kind == "top" else d) for s in seps]
        for _ in range(2):
            texts.append(render(forms, lambda i, kind, d: rnd_sep(rnd)))
        for text in texts:
            cnt += 1
            m = check_text(text, want)
            if m and len(bad) < 5:
                bad.append(m)
    return cnt, bad


def rnd_sep(rnd):
    k = rnd.choice((0, 1, 1, 1, 2, 3))
    return "".join(rnd.choice(SINGLE_SEPS) for _ in range(k))


# ---- concatenation ----------------------------------------------------------------------------------------------
def make_pool(size, seed):
    """texts holding whole forms: every comment inside is newline-terminated, every discard and sugar is complete."""
    rnd = random.Random(seed)
    pool = ["", " ", "\n", "; only a comment\n", "#_ discarded ", "#_ #_ a b\n"]
    for f in VOCAB[::(1 if size >= 150 else 2)]:
        pool.append(render([f]))
    for f in VOCAB[::(3 if size >= 150 else 6)]:
        pool.append(render([f], lambda i, kind, d: rnd_sep(rnd)))
    while len(pool) < size:
        forms = [rnd.choice(VOCAB) for _ in range(rnd.choice((1, 2, 2, 3)))]
        pool.append(render(forms, lambda i, kind, d: rnd_sep(rnd) if rnd.random() < 0.6 else d))
    return pool[:size]


CONCAT_SEPS = [""] + SINGLE_SEPS + ["\n\n", " ; c\n ", " #_ x ", "\t#_(y)\n"]
_POOL = None
_POOL_C = None


def set_pool(pool):
    global _POOL, _POOL_C
    _POOL = pool
    _POOL_C = [read_c(t) for t in pool]


def concat_claimed(t1, sep, t2):
    """The claim read_many(t1 + sep + t2) == read_many(t1) + read_many(t2) is made when
    - sep is non-empty and starts with ASCII whitespace or `;`  (always), or
    - sep starts with `#_` and t1 is empty or ends with ASCII whitespace or a non-identifier character, or
    - sep is empty and (t1 is empty or ends with ASCII whitespace or one of ) ] } " ; or t2 is empty or starts with ASCII
      whitespace or one of ( [ { ; ' ` ~ ).
    Otherwise the last token of t1 and the first of sep/t2 form one token, which the docs define (`ab` is one form)."""
    rest = sep + t2
    if not rest or not t1:
        return True
    p, q = t1[-1], rest[0]
    if p in DOC_WS or p in ")]}\"":
        return True
    if not glued(p):
        return False                     # t1 would end with an opener, a sugar character or an open comment: not whole forms
    return q in DOC_WS or q in "([{;'`~"


def w_concat(args):
    lo, hi = args
    n = len(_POOL)
    bad, cnt, skipped = [], 0, 0
    for idx in range(lo, hi):
        i, j = divmod(idx, n)
        t1, t2 = _POOL[i], _POOL[j]
        (s1, c1), (s2, c2) = _POOL_C[i], _POOL_C[j]
        if s1 != "ok" or s2 != "ok":
            if len(bad) < 5:
                bad.append({"input": t1 if s1 != "ok" else t2, "observed": f"{s1}/{s2}: {c1 if s1 != 'ok' else c2}", "expected": "pool text reads"})
            continue
        for sep in CONCAT_SEPS:
            if not concat_claimed(t1, sep, t2):
                skipped += 1
                continue
            cnt += 1
            m = check_text(t1 + sep + t2, c1 + c2)
            if m and len(bad) < 5:
                bad.append(m)
    return cnt, bad, skipped


# ---- code points ----------------------------------------------------------------------------------------------------
def spec_reads(c):
    """Expected readings of 'a<c>b', '<c>a', 'a<c>' written from docs/syntax.rst (whitespace, identifiers, comments,
    string literals, sugar, keywords, dotted identifiers, reader macros).  Each is ('ok', forms) | ('premature',) | ('lex',)."""
    a, b = c_sym("a"), c_sym("b")
    if c in DOC_WS:
        return ("ok", [a, b]), ("ok", [a]), ("ok", [a])
    if c in "([{":
        return ("premature",), ("premature",), ("premature",)
    if c in ")]}":
        return ("lex",), ("lex",), ("lex",)
    if c == ";":
        return ("ok", [a]), ("ok", []), ("ok", [a])
    if c == '"':
        return ("lex",), ("premature",), ("lex",)        # a" = string with illegal prefix a; "a = unterminated string
    if c in "'`~":
        h = {"'": "quote", "`": "quasiquote", "~": "unquote"}[c]
        return ("ok", [a, c_seq("Expression", [c_sym(h), b])]), ("ok", [c_seq("Expression", [c_sym(h), a])]), ("premature",)
    if c == ".":
        return (("ok", [c_seq("Expression", [c_sym("."), a, b])]),
                ("ok", [c_seq("Expression", [c_sym("."), c_sym("None"), a])]),
                ("lex",))
    if c == ":":
        return ("ok", [c_sym("a:b")]), ("ok", [("hy.models.Keyword", None, (("name", ("py", "str", "'a'")),), ())]), ("ok", [c_sym("a:")])
    if c == "#":
        return ("ok", [c_sym("a#b")]), ("lex",), ("ok", [c_sym("a#")])
    return ("ok", [c_sym("a" + c + "b")]), ("ok", [c_sym(c + "a")]), ("ok", [c_sym("a" + c)])


def _same(spec, got):
    if spec[0] == "ok":
        return got[0] == "ok" and got[1] == spec[1]
    if spec[0] == "lex":
        return got[0] == "lex"
    return got[0] == spec[0]


def w_codepoints(args):
    """(lo, hi, stride): for every code point c in [lo, hi): isnormalizedspace(c) == (c is one of the six documented characters)
    and reading 'a<c>b' is what the documentation says; for every stride-th code point also '<c>a', 'a<c>' and `#<c>zz` (which
    treats c as whitespace, i.e. premature end of input, only for the documented characters)."""
    from hy.reader.reader import isnormalizedspace
    lo, hi, stride = args
    res = {"pred": [], "read": [], "hash": [], "n": 0}
    for cp in range(lo, hi):
        c = chr(cp)
        if bool(isnormalizedspace(c)) != (c in DOC_WS) or isnormalizedspace(c) not in (True, False):
            res["pred"].append(cp)
        specs = spec_reads(c)
        texts = ("a" + c + "b", c + "a", "a" + c)
        positions = 3 if cp % stride == 0 else 1
        for k in range(positions):
            got = read_c(texts[k])
            res["n"] += 1
            if not _same(specs[k], got):
                if len(res["read"]) < 400:
                    res["read"].append((cp, k, got[0], got[1] if got[0] != "ok" else [show(g) for g in got[1]]))
        if positions == 1:
            continue
        # `#` followed by c
        got = read_c("#" + c + "zz")
        res["n"] += 1
        treated_as_space = got[0] == "premature" and "dispatch" in str(got[1])
        if treated_as_space != (c in DOC_WS):
            if len(res["hash"]) < 400:
                res["hash"].append(cp)
    return res
