"""C04 comprehension forms produce the reference nested-loop result; scoping of iteration variables."""
import ast
import itertools

import hy
import hy.scoping as hsc
from hy.models import Expression, Integer, Keyword, List, Symbol

from hv import equiv, rules
from hv.symx import core as sx
from hv.symx.core import E, S, Tok

META = {
    "engine": "symx+pysem",
    "level": "proof",
    "technique": "contract-based: compile_comprehension is executed symbolically on opaque iterables, conditions, bindings, "
                 ":do forms and value forms; postcondition pysem(emitted) == documented nested-loop semantics, for the "
                 "native-comprehension and the generator-function strategy alike (the strategy is an observed branch); "
                 "structural contract on the emitted nonlocal/global declarations (leak set) with ScopeGen in module, "
                 "function and class scope",
    "text": "For lfor/sfor/gfor/dfor/for, every clause list of length 0..2 (quick) / 0..3 (thorough) over {iteration, :if, "
            ":setv, :do} and every shape vector of the sub-forms (statement shapes force the generator-function strategy): "
            "the emitted code yields exactly the elements, in order, of the documented nested loop, with a raise point at "
            "every sub-form, every iterator step and iterator exhaustion at every step (0..2 iterations per loop, head store "
            "stable); #* / #** final forms splice; gfor runs nothing at creation (the outermost iterable may be evaluated "
            "eagerly, as by a native generator expression); for's else belongs to the outermost loop. Leak set: names "
            "assigned by sub-forms are declared nonlocal/global in the lifted function iff they are not iteration or :setv "
            "variables, in module, function and class scope.",
    "note": "Trusted: pysem's model of comprehensions/generators (CPython: own scope, outermost iterable evaluated eagerly for "
            "generator expressions), hysem's reading of docs/api.rst `lfor`; Python's own scoping of comprehension variables "
            "for the native strategy. Clause count bounded; async clauses are checked structurally only.",
}

KINDS = ("for", "if", "setv", "do")
HEADS = ("lfor", "sfor", "gfor", "dfor")


def build(head, seq, final):
    """Returns builder(*toks) for a clause sequence; tokens: one per clause, then the final form(s)."""
    def b(*toks):
        toks = list(toks)
        parts = []
        names = iter("xyzw")
        for k in seq:
            t = toks.pop(0)
            if k == "for":
                parts += [S("u" + next(names)), t]
            elif k == "if":
                parts += [Keyword("if"), t]
            elif k == "do":
                parts += [Keyword("do"), t]
            else:
                parts += [Keyword("setv"), S("u" + next(names)), t]
        if final == "elt":
            parts.append(toks.pop(0))
        elif final == "star":
            parts.append(E(S("unpack-iterable"), toks.pop(0)))
        elif final == "pair":
            parts += [toks.pop(0), toks.pop(0)]
        elif final == "dstar":
            parts.append(E(S("unpack-mapping"), toks.pop(0)))
        return E(S(head), *parts)
    return b


def ntoks(seq, final):
    return len(seq) + (2 if final == "pair" else 1)


def semantic_cases(quick):
    names = []
    maxlen = 2 if quick else 3
    for head in HEADS:
        finals = ("pair", "dstar") if head == "dfor" else ("elt", "star")
        for n in range(1, maxlen + 1):
            for seq in itertools.product(KINDS, repeat=n):
                nfor = seq.count("for")
                if n == 3 and nfor > 2:
                    continue
                for final in finals:
                    if final in ("star", "dstar") and n > 2:
                        continue
                    nm = f"{head}/{'-'.join(seq) or 'none'}/{final}"
                    no_loop_before_if = any(k == "if" and "for" not in seq[:i] for i, k in enumerate(seq))
                    rules.Case(nm, build(head, seq, final), ntoks(seq, final), ("E", "SE") if n <= 2 else ("E",),
                               kind="arity_bounded", fn="hy/core/result_macros.py::compile_comprehension",
                               ctxkw=dict(max_iters=2 if nfor <= 1 else 1),
                               expect_error=(lambda sv: True) if (no_loop_before_if or nfor == 0) else None, wrap=False)
                    names.append(nm)
    # statement shapes S for the element / condition (value None)
    rules.Case("lfor/for/elt-shapes", build("lfor", ("for",), "elt"), 2, ("E", "SE", "S"), kind="arity_bounded", wrap=False)
    rules.Case("lfor/for-if/elt-shapes", build("lfor", ("for", "if"), "elt"), 3, ("E", "SE", "S"), kind="arity_bounded", wrap=False)
    names += ["lfor/for/elt-shapes", "lfor/for-if/elt-shapes"]
    # `for`
    LOOP = dict(atom_abrupt=("raise", "break", "continue"), abrupt_by={"t0": ("raise",)})
    C = rules.Case
    C("for/1", lambda xs, b: E(S("for"), List([S("ux"), xs]), b), 2, ("E", "SE", "S"), ctxkw=LOOP, kind="arity_bounded", wrap=False)
    C("for/else", lambda xs, b, o: E(S("for"), List([S("ux"), xs]), b, E(S("else"), o)), 3, ("E", "SE"), ctxkw=LOOP,
      kind="arity_bounded", wrap=False)
    C("for/2-else-outermost", lambda xs, ys, b, o: E(S("for"), List([S("ux"), xs, S("uy"), ys]), b, E(S("else"), o)), 4,
      ("E", "SE"), ctxkw=dict(atom_abrupt=("raise", "break", "continue"), abrupt_by={"t0": ("raise",), "t1": ("raise",)}, max_iters=1),
      kind="arity_bounded", wrap=False)
    C("for/clauses", lambda xs, c, d, v, b: E(S("for"), List([S("ux"), xs, Keyword("if"), c, Keyword("do"), d, Keyword("setv"), S("uy"), v]), b),
      5, [("E",), ("E", "SE"), ("E", "SE"), ("E", "SE"), ("E", "S")], ctxkw=dict(atom_abrupt=("raise",), max_iters=1),
      kind="arity_bounded", wrap=False)
    C("for/0-body", lambda xs: E(S("for"), List([S("ux"), xs])), 1, ("E", "SE"), ctxkw=LOOP, kind="arity_bounded", wrap=False)
    names += ["for/1", "for/else", "for/2-else-outermost", "for/clauses", "for/0-body"]
    # value of a comprehension used by an enclosing form / comprehension inside loop body
    C("nest/lfor-in-if", lambda xs, e, a: E(S("if"), E(S("lfor"), S("ux"), xs, e), a, a), 3, ("E", "SE"), kind="arity_bounded", wrap=False)
    C("nest/gfor-not-forced-in-setv", lambda xs, e: E(S("do"), E(S("setv"), S("ug"), E(S("gfor"), S("ux"), xs, e)), Integer(1)), 2,
      ("E", "SE"), kind="arity_bounded", wrap=False)
    names += ["nest/lfor-in-if", "nest/gfor-not-forced-in-setv"]
    return names


# ---- leak set --------------------------------------------------------------------------------------------------------
def scope_ctx(kind):
    def ctx(comp):
        if kind == "module":
            import contextlib
            return contextlib.nullcontext()
        args = ast.arguments(args=[], vararg=None, kwarg=None, posonlyargs=[], kwonlyargs=[], kw_defaults=[], defaults=[])
        if kind == "function":
            return comp.scope.create(hsc.ScopeFn, args, False)
        if kind == "class":
            return comp.scope.create(hsc.ScopeFn)
        if kind == "function-in-class":
            import contextlib

            @contextlib.contextmanager
            def both():
                with comp.scope.create(hsc.ScopeFn):
                    with comp.scope.create(hsc.ScopeFn, args, False):
                        yield
            return both()
        if kind == "let-in-function":
            import contextlib

            @contextlib.contextmanager
            def both():
                with comp.scope.create(hsc.ScopeFn, args, False):
                    with comp.scope.create(hsc.ScopeLet):
                        yield
            return both()
        raise ValueError(kind)
    return ctx


def leak_checks(chk):
    """Tokens declare the user names their sub-form assigns (their compile stub calls scope.assign, exactly like setv/setx
    would).  For the lifted generator function F: a name is declared nonlocal/global in F iff a sub-form assigns it and it
    is not an iteration or :setv variable of the comprehension; iteration variables stay plain locals of F."""
    for head in ("lfor", "sfor", "gfor", "dfor"):
        for kind in ("module", "function", "class", "function-in-class", "let-in-function"):
            for where in ("do", "elt", "if", "iterable2", "setv-value"):
                for assigned in (("uouter",), ("ux",), ("uy",), ("uouter", "ux")):
                    it = Tok("xs", "E")
                    a = Tok("a", "SE", assigns=assigned)        # the assigning sub-form (statements => lifted strategy)
                    e = Tok("e", "E")
                    parts = [S("ux"), it, Keyword("setv"), S("uy"), Tok("v", "E")]
                    if where == "do":
                        parts += [Keyword("do"), a]
                    elif where == "if":
                        parts += [Keyword("if"), a]
                    elif where == "iterable2":
                        parts += [S("uz"), a]
                    elif where == "setv-value":
                        parts += [Keyword("setv"), S("uw"), a]
                    final = [a] if where == "elt" else [e]
                    if head == "dfor":
                        final = final + [Tok("val", "E")]
                    out = sx.run_rule(E(S(head), *parts, *final), scope_ctx=scope_ctx(kind))
                    name = f"leak/{head}/{kind}/assignment in {where}/assigns {'+'.join(assigned)}"
                    chk.case(name)
                    if not out.ok:
                        chk.ob(name, False, "structural", "proved", detail=repr(out.exc)[:200])
                        continue
                    fds = [s for s in out.result.stmts if isinstance(s, (ast.FunctionDef, ast.AsyncFunctionDef))]
                    if len(fds) != 1:
                        chk.ob(name, False, "structural", "proved", detail="expected exactly one lifted function\n" + sx.show(out.result))
                        continue
                    fd = fds[0]
                    declared = set()
                    decl_kind = set()
                    for s in fd.body:
                        if isinstance(s, (ast.Nonlocal, ast.Global)):
                            declared.update(s.names)
                            decl_kind.add(type(s).__name__)
                    own = {"ux", "uy"} | ({"uz"} if where == "iterable2" else set()) | ({"uw"} if where == "setv-value" else set())
                    want = set(assigned) - own
                    exposing = kind in ("module", "function", "function-in-class", "let-in-function")
                    if not exposing:
                        want = set()       # inside a class body Python itself does not leak; nothing is declared
                    inside_fn = kind in ("function", "function-in-class", "let-in-function")
                    ok = declared == want
                    if want:
                        ok = ok and decl_kind == ({"Nonlocal"} if inside_fn else {"Global"})
                        if inside_fn:
                            # the dummy `if False: (names) = None` makes the names locals of the enclosing function
                            pre = [s for s in out.result.stmts if isinstance(s, ast.If) and isinstance(s.test, ast.Constant) and s.test.value is False]
                            bound = {n.id for s in pre for n in ast.walk(s) if isinstance(n, ast.Name) and isinstance(n.ctx, ast.Store)}
                            ok = ok and bound == want
                    chk.ob(name, ok, "structural", "proved",
                           detail=f"declared {sorted(declared)} ({sorted(decl_kind)}), expected {sorted(want)}\n{sx.show(out.result)}")


def _replay_target_leak(head, kind, tname, clause, assigned, declared, want):
    """Through the whole pipeline: a program in which the wrongly (un)declared name is observable after the comprehension."""
    import types
    data = {"[ua #* ur]": "[1 2 3]", "[ua [ub #* ur]]": "[1 [2 3 4]]", "#(ua ub)": "[1 2]"}[tname]
    extra, missing = sorted(declared - want), sorted(want - declared)
    if not extra and not missing:
        return None
    n = (extra or missing)[0]
    do = " ".join(f"(setv {a} 5)" for a in assigned)
    it = f"{tname} [{data}]" if clause == "for" else f"ux [0] :setv {tname} {data}"
    final = "ua ua" if head == "dfor" else "ua"
    comp = f"(list ({head} {it} :do (do {do}) {final}))"
    body = f"(setv {n} \"before\") {comp} {n}"
    src = f"(defn hv_f [] {body}) (hv_f)" if kind == "function" else f"(do {body})"
    expected = "before" if extra else 5
    try:
        mod = types.ModuleType("hv_c04_leak")
        got = hy.eval(hy.read_many(src), module=mod, locals=mod.__dict__)
    except Exception as e:  # noqa: BLE001
        got = f"{type(e).__name__}: {e}"
    return {"confirmed": got != expected, "input": src, "observed": repr(got), "expected": repr(expected)}


def destructuring_target_leaks(chk):
    """As leak_checks, for destructuring iteration / :setv targets: every name the target binds - also the rest name of a
    `#*` unpack and names nested in sub-lists - is an iteration variable of the comprehension and is never declared
    nonlocal/global in the lifted function, whether or not a sub-form assigns it again."""
    from hy.models import List as L
    targets = {
        "[ua #* ur]": (lambda: L([S("ua"), E(S("unpack-iterable"), S("ur"))]), {"ua", "ur"}),
        "[ua [ub #* ur]]": (lambda: L([S("ua"), L([S("ub"), E(S("unpack-iterable"), S("ur"))])]), {"ua", "ub", "ur"}),
        "#(ua ub)": (lambda: hy.models.Tuple([S("ua"), S("ub")]), {"ua", "ub"}),
    }
    for head in ("lfor", "sfor", "gfor", "dfor"):
        for kind in ("module", "function"):
            for tname, (mk, own) in targets.items():
                for clause in ("for", "setv"):
                    for assigned in (("uouter",), ("ur",), ("ua", "uouter")):
                        a = Tok("a", "SE", assigns=assigned)
                        parts = ([mk(), Tok("xs", "E")] if clause == "for" else [S("ux"), Tok("xs", "E"), Keyword("setv"), mk(), Tok("v", "E")])
                        parts += [Keyword("do"), a]
                        final = [Tok("e", "E")] + ([Tok("val", "E")] if head == "dfor" else [])
                        out = sx.run_rule(E(S(head), *parts, *final), scope_ctx=scope_ctx(kind))
                        name = f"leak/{head}/{kind}/destructuring {clause} target {tname}/a sub-form assigns {'+'.join(assigned)}"
                        chk.case(name)
                        if not out.ok:
                            chk.ob(name, False, "structural", "proved", detail=repr(out.exc)[:200])
                            continue
                        fds = [s_ for s_ in out.result.stmts if isinstance(s_, (ast.FunctionDef, ast.AsyncFunctionDef))]
                        declared = {n for fd in fds for s_ in fd.body if isinstance(s_, (ast.Nonlocal, ast.Global)) for n in s_.names}
                        want = set(assigned) - own - ({"ux"} if clause == "setv" else set())
                        okk = len(fds) == 1 and declared == want
                        chk.ob(name, okk, "structural", "proved",
                               detail=f"declared {sorted(declared)}, expected {sorted(want)}\n{sx.show(out.result)}",
                               replay=None if okk else _replay_target_leak(head, kind, tname, clause, assigned, declared, want))


def nested_leaks(chk):
    """`setx inside them leaks` also through nesting: an assignment expression (or a setv in a :do clause) inside an inner
    comprehension binds its target in the scope that contains the outermost comprehension - whichever of the two
    comprehensions is compiled natively or as a generator function, and also when that variable is bound by a `let`.
    Oracle: CPython running the equivalent nested comprehension with `:=`."""
    import types
    import hy
    inner = {"native inner": "(lfor b (range 2) (setx x (+ x 1)))", "lifted inner": "(lfor b (range 2) :do (setv x (+ x 1)) x)"}
    outer = {"native outer": "(lfor a (range 2) {})", "lifted outer": "(lfor a (range 2) :do (setv q a) {})"}
    places = {"function": "(defn f [] (setv x 0) (setv r {}) [r x]) (f)", "module": "(do (setv x 0) (setv r {}) [r x])",
              "function, let-bound": "(defn f [] (let [x 0] (setv r {}) [r x])) (f)", "module, let-bound": "(let [x 0] (setv r {}) [r x])"}
    g = {}
    exec("def f():\n    x = 0\n    r = [[(x := x + 1) for b in range(2)] for a in range(2)]\n    return [r, x]\nwant = f()", g)
    want = g["want"]
    for pn, pt in places.items():
        for on, ot in outer.items():
            for inn, it in inner.items():
                src = pt.format(ot.format(it))
                mod = types.ModuleType("hv_c04_nested")
                try:
                    got = hy.eval(hy.read_many(src), module=mod, locals=mod.__dict__)
                except Exception as e:  # noqa: BLE001
                    got = f"{type(e).__name__}: {e}"
                chk.case(("nested", pn, on, inn))
                chk.ob(f"nested-leak/{pn}/{on}/{inn}: the inner assignment updates the variable of the scope around the outer comprehension",
                       got == want, "cpython-oracle", "proved", detail=f"{src} -> {got!r}; Python's nested comprehension with := gives {want!r}",
                       replay={"confirmed": got != want, "input": src, "observed": repr(got), "expected": repr(want)})


def first_iterable_scope(chk):
    """Python evaluates the first iterable of a comprehension in the *enclosing* scope (language reference 6.2.4); the
    lifted generator-function strategy must do the same, otherwise the two strategies differ as soon as the iterable names a
    class-level variable or a variable with the iteration variable's own name.  Structural clause on tokens: the token of
    the first iterable is not inside the lifted function.  The concrete programs are the replayable witnesses."""
    import hy
    for head in ("lfor", "sfor", "gfor", "dfor"):
        for where in ("do", "elt", "if", "iterable2"):
            it = Tok("xs", "E")
            a = Tok("a", "SE")
            parts = [S("ux"), it]
            if where == "do":
                parts += [Keyword("do"), a]
            elif where == "if":
                parts += [Keyword("if"), a]
            elif where == "iterable2":
                parts += [S("uz"), a]
            final = [a] if where == "elt" else [Tok("e", "E")]
            if head == "dfor":
                final = final + [Tok("val", "E")]
            out = sx.run_rule(E(S(head), *parts, *final))
            name = f"scope/first iterable is evaluated outside the lifted function/{head}/statements in {where}"
            chk.case(name)
            if not out.ok:
                chk.ob(name, False, "structural", "proved", detail=repr(out.exc)[:200])
                continue
            fds = [s for s in out.result.stmts if isinstance(s, (ast.FunctionDef, ast.AsyncFunctionDef))]
            inside = any(t is it for fd in fds for _, t in sx.walk_toks(fd))
            src = {"lfor": "(lfor x xs :do (setv z 0) x)", "sfor": "(sorted (sfor x xs :do (setv z 0) x))", "gfor": "(list (gfor x xs :do (setv z 0) x))",
                   "dfor": "(dfor x xs :do (setv z 0) x x)"}[head]
            prog = f"(defclass A [] (setv xs [1 2]) (setv ys {src})) A.ys"
            try:
                got = repr(hy.eval(hy.read_many(prog), module=__import__("types").ModuleType("hv_c04_scope")))
            except Exception as e:  # noqa: BLE001
                got = f"{type(e).__name__}: {e}"
            chk.ob(name, len(fds) == 1 and not inside, "structural", "proved",
                   detail=f"the iterable token is {'inside' if inside else 'outside'} the lifted function\n{sx.show(out.result)}\n"
                          f"witness: {prog}  ->  {got}",
                   replay={"confirmed": "Error" in got, "input": prog, "observed": got, "expected": "[1, 2] / {1: 1, 2: 2}"})


def zero_clause_checks(chk):
    """Without clauses the form evaluates to an empty collection of the right type (tests/native_tests/comprehensions.hy)."""
    for head, want in (("lfor", []), ("sfor", set()), ("dfor", {}), ("gfor", [])):
        for sh in ("E", "SE"):
            toks = sx.tokens((sh,) * (2 if head == "dfor" else 1))
            out = sx.run_rule(E(S(head), *toks))
            ok = out.ok and not out.result.stmts and not sx.walk_toks(out.result._expr)
            if ok:
                v = eval(compile(ast.fix_missing_locations(ast.Expression(body=out.result._expr)), "<c04>", "eval"), {})
                v = list(v) if head == "gfor" else v
                ok = v == want and type(v) is type(want)
            chk.ob(f"zero-clauses/({head} VALUE) is an empty {type(want).__name__}/shape {sh}", ok, "cpython-oracle", "proved",
                   detail=sx.show(out.result) if out.ok else repr(out.exc))


def run(chk):
    quick = chk.tier == "quick"
    names = semantic_cases(quick)
    zero_clause_checks(chk)
    from hv.replay import replay_mismatch
    rules.run_cases(chk, names, replay_fn=replay_mismatch)
    leak_checks(chk)
    destructuring_target_leaks(chk)
    nested_leaks(chk)
    first_iterable_scope(chk)
    chk.fn("hy/core/result_macros.py::compile_comprehension", "hy/scoping.py::ScopeGen.assign/access/iterator/finalize/__enter__",
           "hy/scoping.py::is_inside_function_scope, nearest_python_scope")
    chk.trust("pysem comprehension/generator model", "hysem nested-loop semantics (docs/api.rst lfor)",
              "Python's scoping of native comprehension variables")
    chk.bounds.update({"clauses": "0..2 quick / 0..3 thorough", "iterations per loop": "0..2 (1 when loops nest)"})
    # canaries
    t = sx.tokens(("E", "E", "E"))
    out = sx.run_rule(E(S("lfor"), S("ux"), t[0], Keyword("if"), t[1], t[2]))
    _, bad = equiv.compare(out.result, E(S("lfor"), S("ux"), t[0], t[2]))
    chk.canary("lfor with :if vs reference without the condition", bool(bad))
    out = sx.run_rule(E(S("gfor"), S("ux"), t[0], Keyword("do"), t[1], t[2]))
    _, bad = equiv.compare(out.result, E(S("lfor"), S("ux"), t[0], Keyword("do"), t[1], t[2]))
    chk.canary("gfor (lazy) vs lfor (eager) reference", bool(bad))
    chk.sample({"form": "(lfor ux t0 :if t1 :setv uy t2 t3)", "shapes": ["E", "SE", "E", "E"],
                "emitted": sx.show(sx.run_rule(build("lfor", ("for", "if", "setv"), "elt")(*sx.tokens(("E", "SE", "E", "E")))).result)})


def replay(path):
    from hv.replay import replay_file
    return replay_file(path)
