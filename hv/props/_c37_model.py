"""Reference model of reader-macro visibility for the C37 check, written from docs/macros.rst (section "Reader
macros"), the docstrings of hy.read-many / hy.models.Lazy / defreader and docs/api.rst (require ... :readers).

Documented semantics modelled here
  * a stream is read one top-level form at a time; form k+1 is read after form k has been compiled, including the
    compile-time evaluation of `defreader`, `require` and `eval-and-compile`;
  * `(defreader r ...)` puts r into the module's `_hy_reader_macros` and makes r usable by the reader that reads the
    rest of the stream; using `#r` before that is a syntax error "reader macro '#r' is not defined";
  * a reader macro whose body returns None produces no form;
  * a top-level form is read completely before any of it is compiled, so a reader macro cannot be used in the same
    top-level form that defines it (docs/macros.rst);
  * `(require m :readers [x y])` / `(require m :readers *)` bring in exactly the named (all) reader macros of m; an
    unknown name is a HyRequireError;
  * every module has its own `_hy_reader_macros`; every reader has its own table: a nested stream (another hy.eval of
    another hy.read-many in another module) neither sees nor changes the reader macros of the enclosing stream.

Streams are sequences of ops; `render` gives the Hy text of an op, `Model.run_stream` the predicted outcome.
"""
import json

READERS = ("a", "b")

# (op kind, args...)
DEF_KINDS = ("val", "none", "wrap")
REQ_SPECS = (("a",), ("c",), ("a", "c"), "*", ("zz",), ("a", "zz"))
NESTED = ("def-use", "use", "req-use")

ALPHABET = ([("def", r, k) for r in READERS for k in DEF_KINDS] + [("use", r) for r in READERS] + [("top", r) for r in READERS]
            + [("req", s) for s in REQ_SPECS] + [("plain",)] + [("nested", w) for w in NESTED] + [("inform", "a")])
# reduced alphabet for the longer exhaustive enumerations: one representative per behaviour
REDUCED = [("def", "a", "val"), ("def", "a", "none"), ("def", "b", "wrap"), ("use", "a"), ("use", "b"), ("top", "a"),
           ("req", ("a",)), ("req", "*"), ("req", ("a", "zz")), ("plain",), ("nested", "def-use"), ("nested", "use"), ("inform", "a")]

M1_PRESET = {"a": ("val", "M1:a"), "c": ("val", "M1:c"), "n": ("none", "M1:n")}


def body_text(kind, tag):
    """defreader body: a docstring carrying the tag (so that a table entry can be identified), then the behaviour."""
    if kind == "val":
        return f'"{tag}" "{tag}"'
    if kind == "none":
        return f'"{tag}" None'
    return f'"{tag}" (setv f (.parse-one-form &reader)) `["w:{tag}" ~f]'


def m1_text():
    return "\n".join(f"(defreader {r} {body_text(k, t)})" for r, (k, t) in M1_PRESET.items()) + "\n"


def nested_inner(which, i, m1name):
    if which == "def-use":
        return f'(defreader a "M2:a:{i}" "M2:a:{i}") [#a]'
    if which == "use":
        return "[#a #b]"
    return f"(require {m1name} :readers [c]) [#c]"


def render(op, i, names):
    """Hy text of op number i.  names = dict(m1=..., m2=...) module names as they must be written in the source."""
    k = op[0]
    if k == "def":
        return f"(defreader {op[1]} {body_text(op[2], f'M0:{op[1]}:{i}')})"
    if k == "use":
        return f"(setv u{i} [1 #{op[1]} 2])"
    if k == "top":
        return f"#{op[1]} 7"
    if k == "req":
        spec = "*" if op[1] == "*" else "[" + " ".join(op[1]) + "]"
        return f"(require {names['m1']} :readers {spec})"
    if k == "plain":
        return f"(setv p{i} {i})"
    if k == "inform":        # definition and use in ONE top-level form (docs/macros.rst: the use cannot see the definition)
        return f"(do (defreader {op[1]} {body_text('val', f'M0:{op[1]}:{i}')}) (setv s{i} [1 #{op[1]} 2]))"
    if k == "nested":
        inner = nested_inner(op[1], i, names["m1"])
        return (f"(eval-and-compile (setv n{i} (try (hy.eval (hy.read-many {json.dumps(inner)}) "
                f":module (hy.I.importlib.import-module \"{names['m2']}\")) (except [e Exception] (. (type e) __name__)))))")
    raise ValueError(op)


def stream_text(ops, names, start=0):
    return "\n".join(render(op, start + j, names) for j, op in enumerate(ops)) + "\n"


def expand(impl, following):
    """Text that `#r FOLLOWING` stands for."""
    kind, tag = impl
    if kind == "val":
        return f'"{tag}" {following}'
    if kind == "none":
        return following
    return f'["w:{tag}" {following}]'


def expand_value(impl, following_value):
    kind, tag = impl
    if kind == "val":
        return [tag, following_value]
    if kind == "none":
        return [following_value]
    return [["w:" + tag, following_value]]


class Outcome:
    def __init__(self):
        self.forms = []          # expected top-level forms, as Hy text without reader macros
        self.values = {}         # variable -> Python value, set when the stream's code runs
        self.ct_values = {}      # variable -> value, set at compile time (nested ops), present even when the stream aborts
        self.error = None        # None | ("LexException", "#r") | ("HyRequireError", name)
        self.error_at = None     # index of the op that fails
        self.cls = "completes"


class Model:
    """modules: name -> {reader name: (kind, tag)}; readers: id -> {reader name: (kind, tag)}.
    `hoist=True` is the deliberately wrong variant (reader macros visible from the start of the stream).
    `star_quirk=True` describes what hy does today for `(require m :readers *)`: besides m's reader macros, every other
    entry of the requiring module's own table is enabled on the stream's reader (reported as a finding)."""

    def __init__(self, hoist=False, star_quirk=False):
        self.modules = {"M0": {}, "M1": dict(M1_PRESET), "M2": {}}
        self.readers = {}
        self.hoist = hoist
        self.star_quirk = star_quirk

    def predict_session(self, sess, names):
        """[(Outcome, module tables after the stream, table of the stream's reader after the stream)]"""
        preds, start = [], 0
        for rid, ops in sess:
            out = self.run_stream(ops, rid, names, start)
            preds.append((out, self.tables(), self.reader_table(rid)))
            start += len(ops)
        return preds

    def run_stream(self, ops, reader_id, names, start=0, module="M0"):
        out = Outcome()
        R = self.readers.setdefault(reader_id, {})
        M = self.modules[module]
        if self.hoist:
            for j, op in enumerate(ops):
                if op[0] == "def":
                    R.setdefault(op[1], (op[2], f"M0:{op[1]}:{start + j}"))
        for j, op in enumerate(ops):
            i = start + j
            k = op[0]
            text = render(op, i, names)
            if k == "def":
                impl = (op[2], f"M0:{op[1]}:{i}")
                M[op[1]] = impl
                R[op[1]] = impl
                out.forms.append(text)
            elif k in ("use", "top"):
                r = op[1]
                if r not in R:
                    out.error, out.error_at, out.cls = ("LexException", f"reader macro '#{r}' is not defined"), j, "use before definition"
                    return out
                if k == "use":
                    out.forms.append(f"(setv u{i} [1 {expand(R[r], '2')}])")
                    out.values[f"u{i}"] = [1] + expand_value(R[r], 2)
                else:
                    kind, tag = R[r]
                    if kind == "val":
                        out.forms += [f'"{tag}"', "7"]
                    elif kind == "none":
                        out.forms.append("7")
                    else:
                        out.forms.append(f'["w:{tag}" 7]')
            elif k == "req":
                src = self.modules["M1"]
                wanted = list(src) if op[1] == "*" else list(op[1])
                out.forms.append(text)      # the form is read; it is its compilation that fails
                for n in wanted:
                    if n not in src:
                        out.error, out.error_at, out.cls = ("HyRequireError", n), j, "require of an unknown reader macro"
                        return out
                    M[n] = src[n]           # the module's table is filled name by name, up to the unknown name
                for n in wanted:
                    R[n] = src[n]           # the reader gets them only when the whole require went through
                if self.star_quirk and op[1] == "*":
                    R.update(M)             # what hy does today: `:readers *` enables the whole table of the requiring module
            elif k == "plain":
                out.forms.append(text)
                out.values[f"p{i}"] = i
            elif k == "inform":
                r = op[1]
                if r not in R:          # the whole form is read before its defreader is evaluated
                    out.error, out.error_at, out.cls = ("LexException", f"reader macro '#{r}' is not defined"), j, "use before definition"
                    return out
                new = ("val", f"M0:{r}:{i}")
                out.forms.append(f"(do (defreader {r} {body_text(*new)}) (setv s{i} [1 {expand(R[r], '2')}]))")
                out.values[f"s{i}"] = [1] + expand_value(R[r], 2)      # the use is read with the OLD definition
                M[r] = new
                R[r] = new
            elif k == "nested":
                out.forms.append(text)
                w = op[1]
                if w == "def-use":
                    self.modules["M2"]["a"] = ("val", f"M2:a:{i}")
                    out.ct_values[f"n{i}"] = [f"M2:a:{i}"]
                elif w == "use":
                    out.ct_values[f"n{i}"] = "LexException"
                else:
                    self.modules["M2"]["c"] = self.modules["M1"]["c"]
                    out.ct_values[f"n{i}"] = ["M1:c"]
        return out

    def tables(self):
        return {m: {r: t for r, (_, t) in tab.items()} for m, tab in self.modules.items()}

    def reader_table(self, reader_id):
        return {r: t for r, (_, t) in self.readers.get(reader_id, {}).items()}


def same_prediction(p, q):
    (o1, t1, r1), (o2, t2, r2) = p, q
    return (o1.forms, o1.values, o1.ct_values, o1.error, t1, r1) == (o2.forms, o2.values, o2.ct_values, o2.error, t2, r2)
