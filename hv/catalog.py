"""Catalogue of rule schemas: every compile_* rule and model compiler of /repo, as a form builder over
opaque child tokens.  Shared by the structural properties (C10-C14, C17, C34).

Entry(name, builder, slots): `slots` gives, per child token, the alphabet of Result shapes to explore.
Builders receive the tokens in order and return the form to compile.  User symbols that appear in
builders start with `u_` so that they are recognisable as "names of the input program".
"""
from hy.models import (Bytes, Dict, Expression, FComponent, Float, FString, Integer, Keyword, List, Set, String,
                       Symbol, Tuple)

from hv.symx.core import E, S

B = ("E", "SE", "S")
V = ("E", "SE")
P = ("E",)

ENTRIES = {}


class Entry:
    def __init__(self, name, builder, slots, fn=None, evaluated=None, in_function=False, in_loop=False, py=None, in_class=False):
        self.name, self.builder, self.slots, self.fn = name, builder, list(slots), fn
        self.evaluated = evaluated      # indices of tokens in evaluated position (default: all)
        self.in_function, self.in_loop, self.in_class = in_function, in_loop, in_class
        self.py = py                    # minimum python version tuple
        ENTRIES[name] = self


def K(n):
    return Keyword(n)


def U(n):
    return S("u_" + n)


def _ops():
    RM = "hy/core/result_macros.py::"
    N = Entry
    N("do/0", lambda: E(S("do")), [], RM + "compile_do")
    N("do/2", lambda a, b: E(S("do"), a, b), [B, B], RM + "compile_do")
    N("do/3", lambda a, b, c: E(S("do"), a, b, c), [B, B, B], RM + "compile_do")
    N("if", lambda a, b, c: E(S("if"), a, b, c), [B, B, B], RM + "compile_if")
    N("not", lambda a: E(S("not"), a), [B], RM + "compile_unary_operator")
    N("bnot", lambda a: E(S("bnot"), a), [B], RM + "compile_unary_operator")
    N("and/3", lambda a, b, c: E(S("and"), a, b, c), [B, B, B], RM + "compile_logical_or_and_and_operator")
    N("or/3", lambda a, b, c: E(S("or"), a, b, c), [B, B, B], RM + "compile_logical_or_and_and_operator")
    N("and/0", lambda: E(S("and")), [], RM + "compile_logical_or_and_and_operator")
    for op in ("=", "<", "is", "!=", "in", "not-in", "is-not", ">=", ">", "<="):
        N(f"cmp/{op}/2", lambda a, b, op=op: E(S(op), a, b), [B, B], RM + "compile_compare_op_expression")
    N("cmp/</3", lambda a, b, c: E(S("<"), a, b, c), [B, B, B], RM + "compile_compare_op_expression")
    N("cmp/=/1", lambda a: E(S("="), a), [B], RM + "compile_compare_op_expression")
    N("chainc", lambda a, b, c: E(S("chainc"), a, S("<"), b, S("<="), c), [B, B, B], RM + "compile_chained_comparison")
    for op in ("+", "-", "*", "/", "**", "//", "%", "<<", ">>", "|", "^", "&", "@"):
        N(f"op/{op}/2", lambda a, b, op=op: E(S(op), a, b), [B, B], RM + "compile_maths_expression")
    N("op/+/0", lambda: E(S("+")), [], RM + "compile_maths_expression")
    N("op/-/1", lambda a: E(S("-"), a), [B], RM + "compile_maths_expression")
    N("op///1", lambda a: E(S("/"), a), [B], RM + "compile_maths_expression")
    N("op/*/1", lambda a: E(S("*"), a), [B], RM + "compile_maths_expression")
    N("op/+/3", lambda a, b, c: E(S("+"), a, b, c), [B, B, B], RM + "compile_maths_expression")
    N("op/**/3", lambda a, b, c: E(S("**"), a, b, c), [B, B, B], RM + "compile_maths_expression")
    N("op/+/star", lambda a, b: E(S("+"), a, E(S("unpack-iterable"), b)), [B, B], "hy/macros.py::pattern_macro (shadow)")
    N("cmp/</star", lambda a, b: E(S("<"), a, E(S("unpack-iterable"), b)), [B, B], "hy/macros.py::pattern_macro (shadow)")
    for op in ("+=", "-=", "*=", "/=", "//=", "%=", "**=", "<<=", ">>=", "|=", "^=", "&=", "@="):
        N(f"aug/{op}/1", lambda v, op=op: E(S(op), U("x"), v), [B], RM + "compile_augassign_expression")
    N("aug/+=/3", lambda a, b, c: E(S("+="), U("x"), a, b, c), [B, B, B], RM + "compile_augassign_expression")
    N("aug/-=/2", lambda a, b: E(S("-="), U("x"), a, b), [B, B], RM + "compile_augassign_expression")
    N("aug/+=/attr", lambda o, v: E(S("+="), E(S("."), o, U("a")), v), [P, B], RM + "compile_augassign_expression")
    N("aug/+=/index", lambda o, i, v: E(S("+="), E(S("get"), o, i), v), [P, P, B], RM + "compile_augassign_expression")
    # assignment
    N("setv/1", lambda v: E(S("setv"), U("x"), v), [B + ("T",)], RM + "compile_def_expression")
    N("setv/2", lambda v, w: E(S("setv"), U("x"), v, U("y"), w), [B, B], RM + "compile_def_expression")
    N("setv/unpack", lambda v: E(S("setv"), List([U("x"), E(S("unpack-iterable"), U("y"))]), v), [B], RM + "compile_assign")
    N("setv/attr", lambda o, v: E(S("setv"), E(S("."), o, U("a")), v), [P, B], RM + "compile_assign")
    N("setv/index", lambda o, i, v: E(S("setv"), E(S("get"), o, i), v), [P, P, B], RM + "compile_assign")
    N("setv/chain", lambda v: E(S("setv"), K("chain"), List([U("x"), U("y")]), v), [B], RM + "compile_assign")
    N("setv/annotated", lambda t, v: E(S("setv"), E(S("annotate"), U("x"), t), v), [B, B], RM + "compile_assign")
    N("setx", lambda v: E(S("setx"), U("x"), v), [B + ("T",)], RM + "compile_def_expression")
    N("setv/annotated-temp-value", lambda t, v: E(S("setv"), E(S("annotate"), U("x"), t), v), [V, ("T",)], RM + "compile_assign")
    N("annotate", lambda t: E(S("annotate"), U("x"), t), [B], RM + "compile_basic_annotation")
    N("let/1", lambda v, b: E(S("let"), List([U("x"), v]), b, U("x")), [B, B], RM + "compile_let")
    N("let/2", lambda v, w, b: E(S("let"), List([U("x"), v, List([U("y"), U("z")]), w]), b, U("y")), [B, B, B], RM + "compile_let")
    N("let/annotated", lambda t, v, b: E(S("let"), List([E(S("annotate"), U("x"), t), v]), b), [V, B, B], RM + "compile_let")
    N("deftype", lambda v: E(S("deftype"), U("T"), v), [V], RM + "compile_deftype", py=(3, 12))
    N("deftype/tp", lambda b, v: E(S("deftype"), K("tp"), List([E(S("annotate"), U("A"), b), E(S("unpack-iterable"), U("Ts"))]), U("T"), v),
      [V, V], RM + "compile_deftype, digest_type_params", py=(3, 12))
    N("global", lambda: E(S("global"), U("g"), U("h")), [], RM + "compile_global_or_nonlocal", in_function=True)
    N("nonlocal", lambda: E(S("nonlocal"), U("g")), [], RM + "compile_global_or_nonlocal", in_function=True)
    N("global/0", lambda: E(S("global")), [], RM + "compile_global_or_nonlocal")
    N("del/2", lambda o, i: E(S("del"), U("x"), E(S("get"), o, i)), [P, P], RM + "compile_del_expression")
    N("del/0", lambda: E(S("del")), [], RM + "compile_del_expression")
    # subsetting
    N("get/1", lambda o, i: E(S("get"), o, i), [B, B], RM + "compile_index_expression")
    N("get/2", lambda o, i, j: E(S("get"), o, i, j), [B, B, B], RM + "compile_index_expression")
    N("get/star", lambda o, i: E(S("get"), o, E(S("unpack-iterable"), i)), [B, B], "hy/macros.py::pattern_macro (shadow)")
    N("dot/attr", lambda o: E(S("."), o, U("a"), U("b")), [B], RM + "compile_attribute_access")
    N("dot/call", lambda o, a, b: E(S("."), o, E(U("m"), a, K("k"), b)), [B, B, B], RM + "compile_attribute_access")
    N("dot/index", lambda o, i: E(S("."), o, List([i]), U("a")), [B, B], RM + "compile_attribute_access")
    N("cut/1", lambda o, a: E(S("cut"), o, a), [B, B], RM + "compile_cut_expression")
    N("cut/3", lambda o, a, b, c: E(S("cut"), o, a, b, c), [B, B, B, B], RM + "compile_cut_expression")
    # calls
    N("call/0", lambda f: E(f), [B], "hy/compiler.py::HyASTCompiler.compile_expression")
    N("call/2", lambda f, a, b: E(f, a, b), [B, B, B], "hy/compiler.py::HyASTCompiler.compile_expression")
    N("call/kw", lambda f, a, b: E(f, K("kw-arg"), a, b), [B, B, B], "hy/compiler.py::HyASTCompiler._compile_collect")
    N("call/star", lambda f, a, b: E(f, E(S("unpack-iterable"), a), E(S("unpack-mapping"), b)), [B, B, B],
      "hy/compiler.py::HyASTCompiler._compile_collect")
    N("call/sym", lambda a: E(U("f"), a), [B], "hy/compiler.py::HyASTCompiler.compile_expression")
    N("call/dotted-sym", lambda a: E(E(S("."), U("m"), U("f")), a), [B], "hy/compiler.py::HyASTCompiler.compile_expression")
    N("call/method", lambda o, a: E(E(S("."), S("None"), U("meth")), o, a), [B, B], "hy/compiler.py::HyASTCompiler.compile_expression")
    N("call/method-kw-first", lambda o, a: E(E(S("."), S("None"), U("meth")), K("k"), a, o), [B, B],
      "hy/compiler.py::HyASTCompiler.compile_expression")
    N("call/annotate-head", lambda t: E(E(S("annotate"), U("x")), t), [V], "hy/compiler.py::HyASTCompiler.compile_expression")
    # literals
    N("list/2", lambda a, b: List([a, b]), [B, B], "hy/compiler.py::HyASTCompiler.compile_list")
    N("list/star", lambda a, b: List([a, E(S("unpack-iterable"), b)]), [B, B], "hy/compiler.py::HyASTCompiler.compile_list")
    N("set/2", lambda a, b: Set([a, b]), [B, B], "hy/compiler.py::HyASTCompiler.compile_list")
    N("tuple/2", lambda a, b: Tuple([a, b]), [B, B], "hy/compiler.py::HyASTCompiler.compile_tuple")
    N("tuple/star", lambda a, b: Tuple([E(S("unpack-iterable"), a), b]), [B, B], "hy/compiler.py::HyASTCompiler.compile_tuple")
    N("dict/2", lambda a, b, c, d: Dict([a, b, c, d]), [B, B, V, V], "hy/compiler.py::HyASTCompiler.compile_dict")
    N("dict/dstar", lambda a, b, c: Dict([a, b, E(S("unpack-mapping"), c)]), [B, B, B], "hy/compiler.py::HyASTCompiler.compile_dict")
    N("fstring", lambda a, b: FString([String("x"), FComponent([a, String(">"), FComponent([b])], conversion="r"), String("y")]),
      [B, B], "hy/compiler.py::HyASTCompiler.compile_fstring, compile_fcomponent")
    N("fstring/plain", lambda a: FString([FComponent([a])]), [B], "hy/compiler.py::HyASTCompiler.compile_fcomponent")
    N("keyword", lambda: K("some-kw"), [], "hy/compiler.py::HyASTCompiler.compile_keyword")
    N("string", lambda: String("text"), [], "hy/compiler.py::HyASTCompiler.compile_string")
    N("bytes", lambda: Bytes(b"text"), [], "hy/compiler.py::HyASTCompiler.compile_string")
    N("int", lambda: Integer(42), [], "hy/compiler.py::HyASTCompiler.compile_numeric_literal")
    N("float", lambda: Float(1.5), [], "hy/compiler.py::HyASTCompiler.compile_numeric_literal")
    N("symbol", lambda: U("some-name!"), [], "hy/compiler.py::HyASTCompiler.compile_symbol")
    N("symbol/ellipsis", lambda: S("..."), [], "hy/compiler.py::HyASTCompiler.compile_symbol")
    N("symbol/dotted", lambda: E(S("."), U("a"), U("b-c")), [], RM + "compile_attribute_access")
    # loops and comprehensions
    N("while", lambda c, b: E(S("while"), c, b), [B, B], RM + "compile_while_expression")
    N("while/else", lambda c, b, o: E(S("while"), c, b, E(S("else"), o)), [B, B, B], RM + "compile_while_expression")
    N("break", lambda: E(S("break")), [], RM + "compile_break_or_continue_expression", in_loop=True)
    N("continue", lambda: E(S("continue")), [], RM + "compile_break_or_continue_expression", in_loop=True)
    C = RM + "compile_comprehension"
    N("for/1", lambda xs, b: E(S("for"), List([U("x"), xs]), b), [B, B], C)
    N("for/clauses", lambda xs, c, d, v, b, o: E(S("for"), List([U("x"), xs, K("if"), c, K("do"), d, K("setv"), U("y"), v]), b, E(S("else"), o)),
      [V, V, B, V, B, B], C)
    N("for/no-iteration-clause", lambda b, o: E(S("for"), List([]), b, E(S("else"), o)), [P, P], C)
    N("for/no-iteration-clause-do", lambda d, b, o: E(S("for"), List([K("do"), d]), b, E(S("else"), o)), [P, P, P], C)
    N("for/no-iteration-clause-if", lambda c, b, o: E(S("for"), List([K("if"), c]), b, E(S("else"), o)), [P, P, P], C)
    N("for/unpack-target", lambda xs, b: E(S("for"), List([List([U("x"), U("y")]), xs]), b), [B, B], C)
    for h in ("lfor", "sfor", "gfor"):
        N(f"{h}/1", lambda xs, e, h=h: E(S(h), U("x"), xs, e), [B, B], C)
        N(f"{h}/clauses", lambda xs, c, v, e, h=h: E(S(h), U("x"), xs, K("if"), c, K("setv"), U("y"), v, e), [B, B, B, B], C)
        N(f"{h}/do", lambda xs, d, e, h=h: E(S(h), U("x"), xs, K("do"), d, e), [P, B, P], C)
        # without any clause the value form is not evaluated and the result is empty (asserted by the repository's
        # own tests/native_tests/comprehensions.hy), so its children are not in evaluated position
        N(f"{h}/0", lambda e, h=h: E(S(h), e), [B], C, evaluated=())
    for h in ("lfor", "sfor", "gfor"):
        N(f"{h}/leading-if", lambda c, xs, e, h=h: E(S(h), K("if"), c, U("x"), xs, e), [B, B, B], C)
        N(f"{h}/leading-setv", lambda v, xs, e, h=h: E(S(h), K("setv"), U("y"), v, U("x"), xs, e), [B, B, B], C)
        N(f"{h}/leading-do", lambda d, xs, e, h=h: E(S(h), K("do"), d, U("x"), xs, e), [B, P, P], C)
        N(f"{h}/only-if", lambda c, e, h=h: E(S(h), K("if"), c, e), [B, B], C)
        N(f"{h}/if-if", lambda xs, c, d, e, h=h: E(S(h), U("x"), xs, K("if"), c, K("if"), d, e), [P, B, B, P], C)
    N("dfor/leading-if", lambda c, xs, k, v: E(S("dfor"), K("if"), c, U("x"), xs, k, v), [B, P, P, P], C)
    N("for/leading-if", lambda c, xs, b: E(S("for"), List([K("if"), c, U("x"), xs]), b), [B, P, B], C)
    N("lfor/2", lambda xs, ys, e: E(S("lfor"), U("x"), xs, U("y"), ys, e), [B, B, B], C)
    N("lfor/star", lambda xs, e: E(S("lfor"), U("x"), xs, E(S("unpack-iterable"), e)), [V, V], C)
    N("dfor/1", lambda xs, k, v: E(S("dfor"), U("x"), xs, k, v), [B, B, B], C)
    N("dfor/dstar", lambda xs, m: E(S("dfor"), U("x"), xs, E(S("unpack-mapping"), m)), [V, V], C)
    N("dfor/0", lambda k, v: E(S("dfor"), k, v), [B, B], C, evaluated=())
    N("lfor/async", lambda xs, e: E(S("lfor"), K("async"), U("x"), xs, e), [V, V], C, in_function=True)
    # with / try / raise / match
    W = RM + "compile_with_expression"
    N("with/1", lambda m, b: E(S("with"), List([U("a"), m]), b), [B, B], W)
    N("with/anon", lambda m, b: E(S("with"), List([m]), b), [B, B], W)
    N("with/2", lambda m, n, b: E(S("with"), List([U("a"), m, S("_"), n]), b), [B, B, B], W)
    N("with/target-place", lambda m, o, b: E(S("with"), List([E(S("."), o, U("attr")), m]), b), [V, P, B], W)
    T = RM + "compile_try_expression"
    N("try/full", lambda b, t, h, o, f: E(S("try"), b, E(S("except"), List([U("e"), t]), h, U("e")), E(S("else"), o), E(S("finally"), f)),
      [B, B, B, B, B], T)
    N("try/list", lambda b, t1, t2, h: E(S("try"), b, E(S("except"), List([List([t1, t2])]), h)), [B, V, V, B], T)
    N("try/bare-except", lambda b, h: E(S("try"), b, E(S("except"), List([]), h)), [B, B], T)
    N("try/star", lambda b, t, h: E(S("try"), b, E(S("except*"), List([U("e"), t]), h)), [B, P, B], T, py=(3, 11))
    N("try/finally", lambda b, f: E(S("try"), b, E(S("finally"), f)), [B, B], T)
    N("raise/0", lambda: E(S("raise")), [], RM + "compile_raise_expression")
    N("raise/2", lambda x, y: E(S("raise"), x, K("from"), y), [B, B], RM + "compile_raise_expression")
    M = RM + "compile_match_expression, compile_pattern"
    N("match/basic", lambda s, a, b: E(S("match"), s, Integer(1), a, U("x"), b), [B, B, B], M)
    N("match/guard", lambda s, g, a, b: E(S("match"), s, U("x"), K("if"), g, a, S("_"), b), [B, B, B, B], M)
    N("match/patterns", lambda s, a, b, c, d: E(
        S("match"), s,
        List([Integer(1), U("p"), E(S("unpack-iterable"), U("rest"))]), a,
        Dict([String("k"), U("v"), E(S("unpack-mapping"), U("more"))]), b,
        E(U("Cls"), U("q"), K("attr"), U("r")), K("as"), U("whole"), c,
        E(S("|"), Integer(1), String("s"), S("None")), d), [V, B, B, B, B], M)
    N("match/value-keyword", lambda s, a, b: E(S("match"), s, E(S("."), U("m"), U("C")), a, K("kw"), b), [V, B, B], M)
    N("match/0", lambda s: E(S("match"), s), [B], M)
    # functions and classes
    F = RM + "compile_function_lambda, compile_lambda_list, compile_arguments_set"
    N("fn/lambda", lambda d, b: E(S("fn"), List([U("a"), List([U("b"), d])]), b), [B, P], F)
    N("fn/def", lambda d, a, b: E(S("fn"), List([U("a"), List([U("b"), d]), E(S("unpack-iterable"), U("args")),
                                              U("k"), E(S("unpack-mapping"), U("kw"))]), a, b), [B, B, B], F)
    N("fn/posonly-kwonly", lambda d, b: E(S("fn"), List([U("a"), S("/"), U("b"), S("*"), U("c"), List([U("d"), d])]), b), [B, B], F)
    N("fn/annotated", lambda t1, t2, b: E(S("fn"), E(S("annotate"), List([E(S("annotate"), U("a"), t1)]), t2), b), [V, V, B], F)
    # an annotation on each kind of parameter, alone (the rule chooses between `lambda` and `def` by looking for annotations)
    ann = lambda n, t: E(S("annotate"), U(n), t)
    N("fn/annotated-positional-only", lambda t, b: E(S("fn"), List([ann("a", t), S("/")]), b), [V, B], F)
    N("fn/annotated-ordinary", lambda t, b: E(S("fn"), List([ann("a", t)]), b), [V, B], F)
    N("fn/annotated-with-default", lambda t, d, b: E(S("fn"), List([E(S("annotate"), List([U("a"), d]), t)]), b), [V, V, B], F)
    N("fn/annotated-keyword-only", lambda t, b: E(S("fn"), List([S("*"), ann("a", t)]), b), [V, B], F)
    N("fn/annotated-star", lambda t, b: E(S("fn"), List([E(S("annotate"), E(S("unpack-iterable"), U("a")), t)]), b), [V, B], F)
    N("fn/annotated-double-star", lambda t, b: E(S("fn"), List([E(S("annotate"), E(S("unpack-mapping"), U("a")), t)]), b), [V, B], F)
    N("fn/annotated-positional-only-with-default", lambda t, d, b: E(S("fn"), List([E(S("annotate"), List([U("a"), d]), t), S("/")]), b), [V, V, B], F)
    N("fn/async", lambda b: E(S("fn"), K("async"), List([]), b), [B], F)
    D = RM + "compile_function_def, compile_function_node"
    N("defn", lambda d, a, b: E(S("defn"), U("my-fn"), List([U("a"), List([U("b"), d])]), a, b), [B, B, B], D)
    N("defn/decorated", lambda dec, t, b: E(S("defn"), List([dec]), E(S("annotate"), U("f"), t), List([]), b), [B, V, B], D)
    N("defn/docstring", lambda b: E(S("defn"), U("f"), List([]), String("doc"), b), [B], D)
    N("defn/async", lambda b: E(S("defn"), K("async"), U("f"), List([]), b), [B], D)
    N("defn/tp", lambda b: E(S("defn"), K("tp"), List([U("T")]), U("f"), List([U("a")]), b), [B], D, py=(3, 12))
    N("return/1", lambda a: E(S("return"), a), [B], RM + "compile_return", in_function=True)
    N("return/0", lambda: E(S("return")), [], RM + "compile_return", in_function=True)
    N("yield/1", lambda a: E(S("yield"), a), [B], RM + "compile_yield_expression", in_function=True)
    N("yield/0", lambda: E(S("yield")), [], RM + "compile_yield_expression", in_function=True)
    N("yield/from", lambda a: E(S("yield"), K("from"), a), [B], RM + "compile_yield_expression", in_function=True)
    N("await", lambda a: E(S("await"), a), [B], RM + "compile_yield_from_or_await_expression", in_function=True)
    CL = RM + "compile_class_expression"
    N("defclass", lambda dec, base, mk, b: E(S("defclass"), List([dec]), U("MyCls"), List([base, K("metaclass"), mk]), String("doc"), b),
      [B, B, B, B], CL)
    N("defclass/min", lambda: E(S("defclass"), U("C")), [], CL)
    I = RM + "compile_import"
    N("import/plain", lambda: E(S("import"), U("mod")), [], I)
    N("import/as", lambda: E(S("import"), E(S("."), U("pkg"), U("mod")), K("as"), U("alias")), [], I)
    N("import/names", lambda: E(S("import"), U("mod"), List([U("a"), U("b"), K("as"), U("bee")])), [], I)
    N("import/star", lambda: E(S("import"), U("mod"), S("*")), [], I)
    N("import/relative", lambda: E(S("import"), E(S(".."), S("None"), U("sib")), List([U("a")])), [], I)
    N("assert/1", lambda t: E(S("assert"), t), [B], RM + "compile_assert_expression")
    N("assert/2", lambda t, m: E(S("assert"), t, m), [B, B], RM + "compile_assert_expression")
    N("py", lambda: E(S("py"), String("u_x + 1")), [], RM + "compile_inline_python")
    N("pys", lambda: E(S("pys"), String("u_x = 1\nu_y = u_x")), [], RM + "compile_inline_python")
    N("quote", lambda: E(S("quote"), E(U("f"), Integer(1), List([K("k")]))), [], RM + "compile_quote, render_quoted_form")
    N("quasiquote", lambda a, b: E(S("quasiquote"), E(U("f"), E(S("unquote"), a), E(S("unquote-splice"), b))), [B, B],
      RM + "compile_quote, render_quoted_form")


_ops()


def vectors(entry):
    import itertools
    return list(itertools.product(*entry.slots)) if entry.slots else [()]


def supported(entry):
    import sys
    return entry.py is None or sys.version_info >= entry.py
