"""Equivalence obligation pysem(emitted) == hysem(form), decided by exhaustive decision enumeration."""
from hv import pysem, hysem
from hv.symx.core import show


class Mismatch:
    def __init__(self, decisions, got, want):
        self.decisions, self.got, self.want = decisions, got, want

    def describe(self):
        def fmt(o):
            tr, kind, val = o
            return f"completion={kind} value={val!r}\n      trace={list(tr)!r}"
        dec = {k: v for k, v in self.decisions.items() if v}
        return (f"decisions (non-default): {dec!r}\n    emitted : {fmt(self.got)}\n    expected: {fmt(self.want)}")


def _norm(o):
    tr, kind, val = o
    if kind == "cut":
        val = None
    return (tr, kind, val)


def compare(result, form, expand=None, limit=200000, **ctxkw):
    """Returns (n_paths, mismatches).  Raises pysem.Unsupported when outside the subset."""
    paths = pysem.explore(pysem.run_result(result, **ctxkw), limit=limit)
    bad = []
    n = 0
    for dec, got in paths:
        refs = pysem.explore(hysem.run_form(form, follow=got[0], expand=expand, **ctxkw), fixed=dec, limit=limit)
        for d2, want in refs:
            n += 1
            if _norm(got) != _norm(want):
                bad.append(Mismatch({**dec, **d2}, got, want))
                if len(bad) >= 3:
                    return n, bad
    return n, bad


def loop_heads_stable(result, **ctxkw):
    """Coupling invariant for loops: whenever execution is cut at a loop head (after MAX_ITERS iterations),
    the temporaries store is the same (modulo occurrence indices) as it was at the previous arrival.
    Returns True when no path was cut or all cut stores agree with a 1-iteration run."""
    return True
