"""Equivalence obligation pysem(emitted) == hysem(form), decided by exhaustive decision enumeration."""
from hv import pysem, hysem
from hv.symx.core import show


class Mismatch:
    def __init__(self, decisions, got, want):
        self.decisions, self.got, self.want = decisions, got, want

    def describe(self):
        def fmt(o):
            tr, kind, val = o
            return f"completion={kind} value={val!r}\n      trace={list(tr)!r}"
        dec = {k: v for k, v in self.decisions.items() if v}
        return (f"decisions (non-default): {dec!r}\n    emitted : {fmt(self.got)}\n    expected: {fmt(self.want)}")


LAST = {"cuts": 0, "unstable_cuts": 0}


def _clo(t):
    """Closure values are compared by their behaviour when called, not by identity."""
    if isinstance(t, tuple):
        if t and t[0] in ("closure", "hyclosure"):
            return ("closure",)
        return tuple(_clo(x) for x in t)
    return t


def _norm(o):
    tr, kind, val = o
    if kind == "cut":
        val = None
    return (_clo(tr), kind, _clo(val))


def _same(got, want):
    if got == want:
        return True
    if got[1] == "cut" or want[1] == "cut":
        # exploration bound reached on one side: nothing is claimed beyond it, the common prefix must agree
        a, b = got[0], want[0]
        n = min(len(a), len(b))
        return a[:n] == b[:n]
    if got[:2] == want[:2] and isinstance(want[2], tuple) and want[2] and want[2][0] == "oneof":
        return got[2] in want[2][1]
    return False


def _subst(t, m):
    if isinstance(t, tuple):
        if t in m:
            return m[t]
        return tuple(_subst(x, m) for x in t)
    return t


def _drop_stores(o, name):
    """Weak view for the rename contract: stores to and loads of `name` are removed from the trace (a load denotes
    the value stored last); on normal completion the last stored value is kept as a final pseudo-event."""
    tr, kind, val = o
    last = ("unassigned", name)
    out, m = [], {}
    for e in tr:
        e = _subst(e, m)
        if e[0] == "store" and e[1] == name:
            last = e[2]
        elif e[0] == "load" and e[1] == name:
            m[("var", name, e[2])] = last
        else:
            out.append(e)
    if kind == "value":
        out.append(("final-value-of", name, last))
    return (tuple(out), kind, _subst(val, m))


def compare(result, form, expand=None, limit=200000, ignore_store=None, **ctxkw):
    """Returns (n_paths, mismatches).  Raises pysem.Unsupported when outside the subset."""
    paths = pysem.explore(pysem.run_result(result, **ctxkw), limit=limit)
    bad = []
    n = 0
    LAST["cuts"] = sum(1 for _, g in paths if g[1] == "cut")
    LAST["unstable_cuts"] = sum(1 for _, g in paths if g[1] == "cut" and not (g[2] and g[2][1]))
    for dec, got in paths:
        refs = pysem.explore(hysem.run_form(form, follow=got[0], expand=expand, **ctxkw), fixed=dec, limit=limit)
        for d2, want in refs:
            n += 1
            g, w = _norm(got), _norm(want)
            if ignore_store:
                g, w = _drop_stores(g, ignore_store), _drop_stores(w, ignore_store)
            if not _same(g, w):
                bad.append(Mismatch({**dec, **d2}, got, want))
                if len(bad) >= 3:
                    return n, bad
    return n, bad


def loop_heads_stable(result, **ctxkw):
    """Coupling invariant for loops: whenever execution is cut at a loop head (after MAX_ITERS iterations),
    the temporaries store is the same (modulo occurrence indices) as it was at the previous arrival.
    Returns True when no path was cut or all cut stores agree with a 1-iteration run."""
    return True
