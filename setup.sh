#!/bin/bash
# Builds /verif/.venv offline: python 3.12 (from /venv/bin/python) + solver/contract wheels
# from the wheelhouse, with a .pth that adds /venv's site-packages (funcparserlib etc.),
# so one interpreter imports both /repo's hy and z3/cvc5/icontract/crosshair/hypothesis.
set -e
cd "$(dirname "$0")"
V=.venv
if [ -x "$V/bin/python" ] && "$V/bin/python" -c "import z3, cvc5, icontract, hypothesis, jsonschema, funcparserlib" 2>/dev/null; then
  echo "setup: .venv already usable"; exit 0
fi
rm -rf "$V"
/venv/bin/python -m venv "$V"
PIP_NO_INDEX=1 "$V/bin/pip" install -q --no-index --find-links /opt/veriftools/wheels \
   z3-solver cvc5 crosshair-tool deal icontract hypothesis jsonschema
SP=$("$V/bin/python" -c "import sysconfig; print(sysconfig.get_paths()['purelib'])")
echo "import site; site.addsitedir('/venv/lib/python3.12/site-packages')" > "$SP/repo_overlay.pth"
"$V/bin/python" -c "import z3, cvc5, icontract, hypothesis, jsonschema, funcparserlib; print('setup: ok', z3.get_version_string())"
