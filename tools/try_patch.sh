#!/bin/bash
# tools/try_patch.sh <patch.diff> <ID> [<ID>...]: apply a seeded change to /repo, run the checks, undo it.
set -u
P=$(realpath "$1"); shift
cd /verif
git -C /repo apply "$P" || { echo "patch does not apply"; exit 9; }
for id in "$@"; do
  ./check "$id" --tier ${TIER:-quick} 2>/dev/null | grep -E "^VIOLATION|^  obligation|^$id |^KNOWN|^UNDECIDED|^MISSING|CHECKER" | head -${LINES_MAX:-12}
  echo "exit=$?"
done
git -C /repo checkout -- .
git -C /repo status --short | head -3
