#!/bin/bash
# tools/seeded_regress.sh [seeded-dir...]: for every seeded change, apply it to a scratch worktree of /repo (under /tmp,
# removed afterwards) and run the owning check against that worktree (HV_REPO); the check must exit 1 with a VIOLATION line.
cd "$(dirname "$0")/.."
dirs="$@"; [ -z "$dirs" ] && dirs=$(ls -d seeded/*)
fail=0
ids=""
for d in $dirs; do
  n=$(basename $d); id=${n%%-*}; wt=/tmp/wts_$n
  ids="$ids $id"
  git -C /repo worktree add --detach "$wt" HEAD -q || { echo "$n: cannot create worktree"; fail=1; continue; }
  if git -C "$wt" apply "$PWD/$d/patch.diff" 2>/dev/null; then
    out=$(HV_REPO="$wt" ./check $id --tier ${TIER:-quick} 2>&1); rc=$?
    nv=$(echo "$out" | grep -c "^VIOLATION")
    if [ $rc -eq 1 ] && [ $nv -gt 0 ]; then echo "$n: detected (exit 1, $nv VIOLATION lines; first: $(echo "$out" | grep -A1 '^VIOLATION' | sed -n 2p | cut -c1-110))"
    else echo "$n: NOT DETECTED (exit $rc)"; fail=1; fi
  else echo "$n: patch does not apply"; fail=1; fi
  find "$wt" -name __pycache__ -prune -exec rm -rf {} + 2>/dev/null
  git -C /repo worktree remove --force "$wt"
done
# (runs against another tree write their evidence and replay files to /root/scratch/hv_other_tree_output, not here)
exit $fail
