#!/bin/bash
# usage: tools/run_all.sh [quick|thorough] [IDs...]   - runs the checks one after another, prints a one-line summary each
cd "$(dirname "$0")/.."
tier=${1:-quick}; shift
ids="$@"
[ -z "$ids" ] && ids=$(ls hv/props/c[0-9][0-9].py | sed 's/.*c\([0-9][0-9]\).py/C\1/')
for id in $ids; do
  s=$(date +%s)
  out=$(./check $id --tier $tier 2>&1); rc=$?
  e=$(date +%s)
  echo "$id rc=$rc $((e-s))s $(echo "$out" | tail -1)"
  [ $rc -ne 0 ] && echo "$out" | grep -E "VIOLATION|UNDECIDED|MISSING|CHECKER|Traceback" | head -5
done
