#!/bin/bash
# tools/verify_seeded.sh <seeded-dir>...: confirm in a scratch worktree that the change applies, the pinned suite still
# passes, and the demonstration fails with the change and passes without it.  Writes "verified_by_me" into meta.json.
for d in "$@"; do
  d=$(realpath "$d"); n=$(basename "$d"); wt=/tmp/wtv_$n
  git -C /repo worktree add --detach "$wt" HEAD -q || continue
  res="applies=no"
  if git -C "$wt" apply "$d/patch.diff"; then
    cp "$d/demo.py" "$wt/demo.py"
    (cd "$wt" && PATH=/venv/bin:$PATH /venv/bin/python demo.py >/dev/null 2>&1); with=$?
    suite=$(cd /verif && python3 tools/baseline.py "$wt" | head -1)
    git -C "$wt" checkout -q -- hy
    (cd "$wt" && PATH=/venv/bin:$PATH /venv/bin/python demo.py >/dev/null 2>&1); without=$?
    res="applies=yes demo_exit_with_change=$with demo_exit_without=$without suite='$suite'"
  fi
  find "$wt" -name __pycache__ -prune -exec rm -rf {} + 2>/dev/null
  git -C /repo worktree remove --force "$wt"
  python3 - "$d/meta.json" "$res" <<'PY'
import json,sys
p,res=sys.argv[1],sys.argv[2]
m=json.load(open(p)); m["verified_by_me"]=res+" (scratch worktree under /tmp, removed afterwards; tools/verify_seeded.sh)"
json.dump(m,open(p,"w"),indent=1)
PY
  echo "$n: $res"
done
