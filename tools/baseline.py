#!/usr/bin/env python3
"""Runs /repo's pinned test suite (guard off) and compares with /root/.vp/BASELINE.json stable_pass."""
import json, os, subprocess, sys, tempfile, xml.etree.ElementTree as ET
repo = sys.argv[1] if len(sys.argv) > 1 else "/repo"
base = json.load(open("/root/.vp/BASELINE.json"))
with tempfile.TemporaryDirectory(dir="/root") as d:
    x = os.path.join(d, "j.xml")
    env = dict(os.environ); env.pop("HY_VERIF", None); env["PYTHONDONTWRITEBYTECODE"] = "1"
    subprocess.run(["/venv/bin/python", "-m", "pytest", "-q", "-p", "no:cacheprovider", "--timeout=900",
                    "--continue-on-collection-errors", f"--junitxml={x}"], cwd=repo, env=env,
                   stdout=subprocess.DEVNULL, stderr=subprocess.DEVNULL)
    passed = set()
    for tc in ET.parse(x).getroot().iter("testcase"):
        if not any(c.tag in ("failure", "error", "skipped") for c in tc):
            passed.add(f"{tc.get('classname')}::{tc.get('name')}")
want = set(base["stable_pass"])
miss = sorted(want - passed)
print(f"baseline: {len(want & passed)}/{len(want)} stable tests pass; missing {len(miss)}")
for m in miss[:30]:
    print("  MISSING", m)
sys.exit(1 if miss else 0)
