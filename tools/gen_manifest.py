#!/usr/bin/env python3
"""Regenerates MANIFEST.json from the META dict of each hv/props/cNN.py (single source of truth).
Properties without a check module are listed under not_applicable with the reason in tools/na.json."""
import ast, json, os, sys
ROOT = os.path.dirname(os.path.dirname(os.path.abspath(__file__)))
props = [json.loads(l) for l in open(os.path.join(ROOT, "properties.jsonl"))]
na = json.load(open(os.path.join(ROOT, "tools", "na.json")))
checks, not_app, engines = [], [], {}
for p in props:
    pid = p["id"]
    path = os.path.join(ROOT, "hv", "props", pid.lower() + ".py")
    meta = None
    ONLY = os.environ.get("HV_MANIFEST_ONLY")
    if os.path.exists(path) and (not ONLY or pid in ONLY.split(",")):
        tree = ast.parse(open(path).read())
        for n in tree.body:
            if isinstance(n, ast.Assign) and getattr(n.targets[0], "id", None) == "META":
                meta = ast.literal_eval(n.value)
    if meta is None or meta.get("disabled"):
        not_app.append({"property_id": pid, "reason": na.get(pid, (meta or {}).get("disabled", "no contract-based check has been built for this property yet"))})
        continue
    checks.append({
        "property_id": pid,
        "quick_cmd": f"./check {pid} --tier quick",
        "thorough_cmd": f"./check {pid} --tier thorough",
        "evidence_file": f"evidence/{pid}.json",
        "replay_cmd_template": f"./check {pid} --replay {{path}}",
        "engine": meta["engine"],
        "level_claimed": {"category": meta["level"], "text": meta["text"], "design_ref": meta.get("design_ref", f"DESIGN.md §5/{pid}")},
        "level_note": meta["note"],
        "technique": meta["technique"],
    })
    for e in meta["engine"].split("+"):
        engines.setdefault(e.strip(), []).append(pid)
ENG = {
 "symx": ("hv/symx", "path-exhaustive native execution of the real rule functions on opaque tokens (callees cut at their contracts)"),
 "pysem": ("hv/pysem.py", "trace semantics of the emitted Python AST + decision enumeration (EUF + Boolean guards); with hv/hysem.py as reference semantics"),
 "pyvc": ("hv/pyvc", "static VC generator: source AST of the real function -> SMT (z3, then cvc5) against sidecar contracts"),
 "ex": ("hv/props (per-property enumeration drivers)", "bounded stand-in: complete evaluation of a contract over a finite domain"),
 "rtc": ("hv/props (per-property run-time contract drivers), hv/concrete.py", "bounded stand-in: run-time contracts on the real functions driven by enumeration / hypothesis"),
}
man = {
 "version": 1,
 "setup_cmd": "./setup.sh",
 "hooks": {"guard": "HY_VERIF", "enable": "no hooks are needed: contracts are sidecar files under /verif and callees are cut by patching module globals inside the checker process; HY_VERIF=1 is exported by ./check but /repo contains no code that reads it",
           "baseline_off_cmd": "cd /repo && /venv/bin/python -m pytest -ra -q -p no:cacheprovider --timeout=900 --continue-on-collection-errors",
           "source_commits": [], "add_only": True},
 "engines": [{"name": k, "path": ENG[k][0], "serves_properties": v, "kind_free_text": ENG[k][1]} for k, v in engines.items() if k in ENG],
 "checks": checks,
 "not_applicable": not_app,
 "notes": "Contract-based deductive verification of the real code; see DESIGN.md. Exit codes of ./check: 0 held, 1 violation, 2 undecided, 3 checker crash.",
}
json.dump(man, open(os.path.join(ROOT, "MANIFEST.json"), "w"), indent=1)
print(f"MANIFEST.json: {len(checks)} checks, {len(not_app)} not_applicable")
