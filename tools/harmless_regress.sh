#!/bin/bash
# tools/harmless_regress.sh [harmless-dir...]: every harmless/<name>/ holds a behaviour-preserving patch of /repo (patch.diff) and
# the list of checks that look at the touched functions (meta.json: "checks").  The patch is applied to a scratch worktree of /repo
# (under /tmp, removed afterwards) and each listed check is run against it (HV_REPO); every one must exit 0 with no VIOLATION line.
cd "$(dirname "$0")/.."
dirs="$@"; [ -z "$dirs" ] && dirs=$(ls -d harmless/*/)
fail=0
for d in $dirs; do
  d=${d%/}; n=$(basename $d); wt=/tmp/wth_run_$n
  git -C /repo worktree add --detach "$wt" HEAD -q || { echo "$n: cannot create worktree"; fail=1; continue; }
  if git -C "$wt" apply "$PWD/$d/patch.diff" 2>/dev/null; then
    for id in $(python3 -c "import json,sys; print(' '.join(json.load(open('$d/meta.json'))['checks']))"); do
      out=$(HV_REPO="$wt" ./check $id --tier ${TIER:-quick} 2>&1); rc=$?
      nv=$(echo "$out" | grep -c "^VIOLATION")
      if [ $rc -eq 0 ] && [ $nv -eq 0 ]; then echo "$n $id: quiet (exit 0)"
      else echo "$n $id: ALARM (exit $rc, $nv VIOLATION lines): $(echo "$out" | grep -E -A1 '^VIOLATION|^MISSING|^CHECKER' | head -3 | tr '\n' ' ' | cut -c1-260)"; fail=1; fi
    done
  else echo "$n: patch does not apply (the tree has moved on)"; fi
  find "$wt" -name __pycache__ -prune -exec rm -rf {} + 2>/dev/null
  git -C /repo worktree remove --force "$wt"
done
exit $fail
